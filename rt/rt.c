/* See rt.h.  Compiled WITHOUT -fsanitize=thread. */
#define _GNU_SOURCE
#include <errno.h>
#include <signal.h>
#include <stdarg.h>
#include <stdint.h>
#include <stdio.h>
#include <stdlib.h>
#include <string.h>
#include <time.h>
#include <ucontext.h>
#include <unistd.h>
#include <sys/mman.h>
#include <sys/syscall.h>
#include <sys/time.h>
#include <linux/futex.h>
#include "rt.h"

#define STK_SIZE (512 * 1024)
#define ARENA_SIZE (8u << 20)
#define MAXBLK 8192
#define MAXNAMES 512
#define MAXMU 32
#define FSTACK 128
#define HB_ATOM 2048
#define HB_PLAIN 16384
#define MAXSYM 4096

struct fiber {
	ucontext_t ctx;
	char *stk;
	int state;
	struct rt_op pend, last;
	int first;                 /* next hook result belongs to `last` */
	int noyield;
	int choice;
	void (*fn) (void *);
	void *arg;
	void *tls_waiter, *last_waiter;
	void (*tls_dest) (void *);
	void *fstack[FSTACK];
	void *fiber_word;
	int fdepth;
	/* futex blocking */
	void *blk_addr;
	int blk_timed;
	int64_t blk_sec, blk_nsec;
	int woken, fault, fault_err;
	int64_t pend_sec, pend_nsec; int pend_timed;  /* deadline of a parked OP_SEMPD */
	int crashed;
	int in_swc;
	uint32_t vc[RT_MAXT];
};

struct blk { char *p; size_t n; int freed; int owner; };
struct name { const char *p; size_t n; char s[40]; };
struct muocc { const void *mu; int writers, readers; char mode[RT_MAXT]; };
struct hb_atom { const void *a; uint32_t vc[RT_MAXT]; };
struct hb_plain { const void *a; uint32_t wt, wc; uint32_t rd[RT_MAXT]; };
struct sym { uintptr_t a; char n[48]; };
struct dead { const char *p; size_t n; int owner; char what[48]; };

struct rtg {
	ucontext_t mainctx;
	struct fiber f[RT_MAXT];
	int nf;
	struct fiber *cur;
	long steps;
	int64_t now;
	/* arena */
	char *arena; size_t brk;
	struct blk blk[MAXBLK]; int nblk;
	long malloc_count, fail_at;
	/* names */
	struct name names[MAXNAMES]; int nnames, nnames_snap;
	/* occupancy */
	struct muocc mu[MAXMU]; int nmu;
	/* violations */
	struct rt_viol viol; int has_viol; int crashed;
	/* snapshot */
	char *snap; size_t snap_n; char *snap_lo;
	char *snap2; size_t snap2_n; char *snap2_lo;
	int track_stack;
	/* hb */
	int hb_on;
	struct hb_atom ha[HB_ATOM];
	struct hb_plain hp[HB_PLAIN];
	struct { const char *p; size_t n; } hbr[64]; int nhbr;
	/* symbols */
	struct sym *sym; int nsym;
	rt_ord_cb ord_cb;
	char *altstack;
	struct dead dead[16]; int ndead;
	long alarm_steps, total_steps;
};
static struct rtg *G;

void (*rt_on_acquire) (void *mu, int writer, int tid);
void (*rt_on_release) (void *mu, int writer, int tid);
void (*rt_on_access) (void *addr, int size, int is_write, int tid);
int (*rt_client_gate) (int tid);
extern int rt_exit_is_step;
extern int rt_no_exit_dest;
int rt_sem_single_step = 1;
int rt_binary_sem = 0;
FILE *rt_log;

static const char *kind_names[] = { "none", "ld", "st", "cas", "rmw", "fwait", "fwake", "d", "c",
	"p", "pd", "v", "region", "lock", "unlock", "exit", "plain" };
const char *rt_kind_name (int k) { return (k >= 0 && k <= OP_PLAIN) ? kind_names[k] : "?"; }

/* sections holding the writable statics of the code under test (renamed by objcopy) */
extern char __start_uutdata[] __attribute__ ((weak)), __stop_uutdata[] __attribute__ ((weak));
extern char __start_uutbss[] __attribute__ ((weak)), __stop_uutbss[] __attribute__ ((weak));

extern unsigned nsync_spin_delay_ (unsigned) __attribute__ ((weak));

/* ------------------------------------------------------------------ symbols */
static void load_symbols (void) {
	char cmd[128], line[256];
	FILE *p;
	G->sym = mmap (0, sizeof (struct sym) * MAXSYM, PROT_READ | PROT_WRITE, MAP_PRIVATE | MAP_ANONYMOUS, -1, 0);
	snprintf (cmd, sizeof cmd, "nm -n /proc/%d/exe 2>/dev/null", (int) getpid ());
	p = popen (cmd, "r");
	if (!p) return;
	while (fgets (line, sizeof line, p) && G->nsym < MAXSYM) {
		unsigned long a; char ty; char nm[200];
		if (sscanf (line, "%lx %c %199s", &a, &ty, nm) == 3 && (ty == 't' || ty == 'T')) {
			G->sym[G->nsym].a = a;
			snprintf (G->sym[G->nsym].n, sizeof G->sym[0].n, "%s", nm);
			G->nsym++;
		}
	}
	pclose (p);
}
/* address of a (possibly static) data symbol of the code under test, e.g. common.c's free_waiters */
void *rt_data_sym (const char *name) {
	char cmd[128], line[256];
	FILE *p;
	void *res = NULL;
	snprintf (cmd, sizeof cmd, "nm -n /proc/%d/exe 2>/dev/null", (int) getpid ());
	p = popen (cmd, "r");
	if (!p) return NULL;
	while (fgets (line, sizeof line, p)) {
		unsigned long a; char ty; char nm[200];
		if (sscanf (line, "%lx %c %199s", &a, &ty, nm) == 3 && strchr ("bBdD", ty) && strcmp (nm, name) == 0) { res = (void *) a; break; }
	}
	pclose (p);
	return res;
}
const char *rt_fn_name (const void *pc, char *buf, size_t n) {
	int lo = 0, hi = G->nsym - 1, best = -1;
	uintptr_t a = (uintptr_t) pc;
	while (lo <= hi) { int mid = (lo + hi) / 2; if (G->sym[mid].a <= a) { best = mid; lo = mid + 1; } else hi = mid - 1; }
	if (best < 0 || pc == NULL) snprintf (buf, n, "?");
	else snprintf (buf, n, "%s", G->sym[best].n);
	return buf;
}

/* name of the nsync function performing an operation: the atm_* helpers of atomic.h are real frames under -fno-inline */
const char *rt_op_fn (const struct rt_op *o, char *buf, size_t n) {
	rt_fn_name (o->site, buf, n);
	if (strncmp (buf, "atm_", 4) == 0 && o->psite) rt_fn_name (o->psite, buf, n);
	return buf;
}

/* is fiber t currently inside the function called `name` (anywhere on its stack of instrumented frames)? */
int rt_in_function (int t, const char *name) {
	struct fiber *f;
	char b[64];
	int i;
	if (!G || t < 0 || t >= G->nf) return 0;
	f = &G->f[t];
	for (i = 0; i < f->fdepth && i < FSTACK; i++) { rt_fn_name (f->fstack[i], b, sizeof b); if (!strcmp (b, name)) return 1; }
	return 0;
}

/* ------------------------------------------------------------------ violations */
static const char *innermost_fn (struct fiber *f, char *buf, size_t n) {
	int i;
	if (!f) { snprintf (buf, n, "-"); return buf; }
	for (i = f->fdepth - 1; i >= 0; i--) {
		rt_fn_name (f->fstack[i], buf, n);
		if (strncmp (buf, "atm_", 4) != 0) return buf;
	}
	snprintf (buf, n, "-");
	return buf;
}
/* VERIF_IGNORE=O-mem,...: oracles that belong to another property's check and are switched off in this run, so that the
   execution goes on to what the fault does to this property (used only in the exploration that follows a divergence) */
static const char *ignored_oracles;
/* VERIF_SOFT=O-hb,...: oracles of another property that are only COUNTED in this run (the behaviour goes on and stays judged by this
   property's oracles); the first message is kept and reported once per process ("SOFT ..." line, rt_report_soft) */
static const char *soft_oracles;
static long soft_hits; static char soft_first[300];
long rt_soft_hits (void) { return soft_hits; }
void rt_report_soft (FILE *out) { if (soft_hits) fprintf (out, "SOFT %ld %s\n", soft_hits, soft_first); }
static int in_list (const char *list, const char *oracle) {
	const char *q; size_t n = strlen (oracle);
	if (!list) return 0;
	q = strstr (list, oracle);
	return q && (q == list || q[-1] == ',') && (q[n] == 0 || q[n] == ',');
}
void rt_violation (const char *oracle, const char *fmt, ...) {
	va_list ap;
	if (G->has_viol) return;
	if (in_list (soft_oracles, oracle)) {
		if (!soft_hits++) { int k = snprintf (soft_first, sizeof soft_first, "%s|", oracle); va_start (ap, fmt); vsnprintf (soft_first + k, sizeof soft_first - (size_t) k, fmt, ap); va_end (ap); }
		return;
	}
	if (ignored_oracles) {
		const char *q = strstr (ignored_oracles, oracle); size_t n = strlen (oracle);
		if (q && (q == ignored_oracles || q[-1] == ',') && (q[n] == 0 || q[n] == ',')) return;
	}
	G->has_viol = 1;
	snprintf (G->viol.oracle, sizeof G->viol.oracle, "%s", oracle);
	va_start (ap, fmt);
	vsnprintf (G->viol.msg, sizeof G->viol.msg, fmt, ap);
	va_end (ap);
	G->viol.tid = G->cur ? (int) (G->cur - G->f) : -1;
	G->viol.step = G->steps;
	innermost_fn (G->cur, G->viol.fn, sizeof G->viol.fn);
}
const struct rt_viol *rt_first_violation (void) { return G->has_viol ? &G->viol : NULL; }
/* schedule files are written for the first few failures of EACH oracle (a check keeps only its own property's oracles) */
int rt_should_save (const char *oracle) {
	static struct { char o[24]; int n; } tab[16]; static int nt;
	int i;
	for (i = 0; i < nt; i++) if (!strcmp (tab[i].o, oracle)) return ++tab[i].n <= 3;
	if (nt < 16) { snprintf (tab[nt].o, sizeof tab[0].o, "%s", oracle); tab[nt].n = 1; nt++; return 1; }
	return 0;
}
int rt_crashed (void) { return G->crashed; }

/* ------------------------------------------------------------------ names */
void rt_name (const void *p, size_t n, const char *name) {
	if (G->nnames < MAXNAMES) {
		G->names[G->nnames].p = p; G->names[G->nnames].n = n;
		snprintf (G->names[G->nnames].s, sizeof G->names[0].s, "%s", name);
		G->nnames++;
	}
}
const char *rt_addr_name (const void *p, char *buf, size_t n) {
	int i;
	const char *c = p;
	for (i = G->nnames - 1; i >= 0; i--) {
		if (c >= G->names[i].p && c < G->names[i].p + G->names[i].n) {
			if (c == G->names[i].p) snprintf (buf, n, "%s", G->names[i].s);
			else snprintf (buf, n, "%s+%d", G->names[i].s, (int) (c - G->names[i].p));
			return buf;
		}
	}
	for (i = 0; i < G->nf; i++) {
		if (c >= G->f[i].stk && c < G->f[i].stk + STK_SIZE) { snprintf (buf, n, "stack%d", i); return buf; }
	}
	if (c >= G->arena && c < G->arena + ARENA_SIZE) { snprintf (buf, n, "heap+%ld", (long) (c - G->arena)); return buf; }
	snprintf (buf, n, "%p", p);
	return buf;
}

/* ------------------------------------------------------------------ arena */
static struct blk *find_blk (const char *p) {
	int lo = 0, hi = G->nblk - 1, best = -1;
	while (lo <= hi) { int mid = (lo + hi) / 2; if (G->blk[mid].p <= p) { best = mid; lo = mid + 1; } else hi = mid - 1; }
	if (best >= 0 && p < G->blk[best].p + G->blk[best].n + 64) return &G->blk[best];
	return NULL;
}
void *rt_malloc (size_t n) {
	char *p;
	size_t sz = (n + 63) & ~(size_t) 63;
	if (G->brk + sz + 64 > ARENA_SIZE || G->nblk >= MAXBLK) { fprintf (stderr, "rt: arena exhausted\n"); _exit (2); }
	p = G->arena + G->brk;
	G->brk += sz + 64;
	memset (p, 0xAB, sz + 64);
	G->blk[G->nblk].p = p; G->blk[G->nblk].n = n; G->blk[G->nblk].freed = 0;
	G->blk[G->nblk].owner = G->cur ? (int) (G->cur - G->f) : -1;
	G->nblk++;
	return p;
}
static void hb_free_write (const char *p, size_t n);
static void hb_atomic (int kind, const void *a, int mo, int fmo, int ok);
void rt_free (void *p) {
	struct blk *b;
	if (p == NULL) return;
	b = find_blk (p);
	if (!b || b->p != (char *) p) { rt_violation ("O-mem", "free of a pointer that is not an allocated block"); return; }
	if (b->freed) { rt_violation ("O-mem", "double free"); return; }
	hb_free_write (b->p, b->n);
	b->freed = 1;
	memset (b->p, 0xDD, b->n);
}
int rt_is_freed (const void *p) { struct blk *b = find_blk (p); return b && b->freed; }
int rt_block_owner (const void *p) { struct blk *b = find_blk (p); return b ? b->owner : -1; }
long rt_malloc_count (void) { return G->malloc_count; }
void rt_fail_malloc_at (long k) { G->fail_at = k ? G->malloc_count + k : 0; }
int rt_fail_pending (void) { return G->fail_at != 0; }     /* the armed failure has not been consumed (fewer allocations than asked for) */

void *__real_malloc (size_t);
void __real_free (void *);
void *__wrap_malloc (size_t n) {
	if (!G) return __real_malloc (n);
	G->malloc_count++;
	if (G->fail_at && G->malloc_count == G->fail_at) { G->fail_at = 0; errno = ENOMEM; return NULL; }
	return rt_malloc (n);
}
void __wrap_free (void *p) {
	if (G && (char *) p >= G->arena && (char *) p < G->arena + ARENA_SIZE) rt_free (p);
	else __real_free (p);
}

static void check_access (const void *addr, int size, int is_write, int atomic) {
	const char *c = addr;
	struct fiber *f = G->cur;
	int i;
	(void) size;
	if (!f) return;
	for (i = 0; i < G->ndead; i++) {
		if (c >= G->dead[i].p && c < G->dead[i].p + G->dead[i].n && G->dead[i].owner != (int) (f - G->f)) {
			rt_violation ("O-mem", "%s%s of the %s of thread %d after the call that owned it returned (its stack frame may have been reused)",
				      atomic ? "atomic " : "", is_write ? "write" : "read", G->dead[i].what, G->dead[i].owner + 1);
			return;
		}
	}
	if (c >= G->arena && c < G->arena + ARENA_SIZE) {
		struct blk *b = find_blk (c);
		if (b && b->freed) {
			char nb[64];
			rt_violation ("O-mem", "%s%s of freed block %s (allocated by thread %d)", atomic ? "atomic " : "",
				      is_write ? "write" : "read", rt_addr_name (addr, nb, sizeof nb), b->owner);
		}
		return;
	}
	if (!G->track_stack) return;
	for (i = 0; i < G->nf; i++) {
		struct fiber *o = &G->f[i];
		if (o == f || c < o->stk || c >= o->stk + STK_SIZE) continue;
		if (o->state == F_DONE || o->state == F_FREE) {
			rt_violation ("O-mem", "%s of the stack of finished thread %d", is_write ? "write" : "read", i);
		} else {
			uintptr_t sp = (uintptr_t) o->ctx.uc_mcontext.gregs[REG_RSP];
			if ((uintptr_t) c + 128 < sp) {
				rt_violation ("O-mem", "%s%s of a dead stack frame of thread %d (%ld bytes below its stack pointer)",
					      atomic ? "atomic " : "", is_write ? "write" : "read", i, (long) (sp - (uintptr_t) c));
			}
		}
		return;
	}
}

/* An access made on behalf of the code under test by a stand-in (the ideal lock touching the mutex word). */
void rt_touch (const void *addr, int is_write) { if (G && G->cur) check_access (addr, 4, is_write, 1); }

/* ------------------------------------------------------------------ happens-before */
static int hb_tracked (const char *p) {
	int i;
	if (p >= G->arena && p < G->arena + ARENA_SIZE) return 1;
	for (i = 0; i < G->nhbr; i++) if (p >= G->hbr[i].p && p < G->hbr[i].p + G->hbr[i].n) return 1;
	return 0;
}
void rt_hb_enable (int on) { G->hb_on = on; }
void rt_hb_track (const void *p, size_t n) { if (G->nhbr < 64) { G->hbr[G->nhbr].p = p; G->hbr[G->nhbr].n = n; G->nhbr++; } }
void rt_hb_untrack_all (void) { G->nhbr = 0; }
static struct hb_atom *hb_atom (const void *a) {
	uintptr_t h = ((uintptr_t) a >> 2) * 2654435761u;
	int i;
	for (i = 0; i < HB_ATOM; i++) {
		struct hb_atom *e = &G->ha[(h + i) % HB_ATOM];
		if (e->a == a) return e;
		if (e->a == NULL) { e->a = a; memset (e->vc, 0, sizeof e->vc); return e; }
	}
	fprintf (stderr, "rt: hb atom table full\n"); _exit (2);
}
static struct hb_plain *hb_plain (const void *a) {
	uintptr_t h = ((uintptr_t) a >> 2) * 2654435761u;
	int i;
	for (i = 0; i < HB_PLAIN; i++) {
		struct hb_plain *e = &G->hp[(h + i) % HB_PLAIN];
		if (e->a == a) return e;
		if (e->a == NULL) { e->a = a; e->wt = 0; e->wc = 0; memset (e->rd, 0, sizeof e->rd); return e; }
	}
	fprintf (stderr, "rt: hb plain table full\n"); _exit (2);
}
#define IS_ACQ(mo) ((mo) == 1 || (mo) == 2 || (mo) == 4 || (mo) == 5)
#define IS_REL(mo) ((mo) == 3 || (mo) == 4 || (mo) == 5)
static void hb_atomic (int kind, const void *a, int mo, int fmo, int ok) {
	struct fiber *f = G->cur;
	struct hb_atom *e;
	int t, i;
	if (!G->hb_on || !f) return;
	t = (int) (f - G->f);
	e = hb_atom (a);
	if (kind == OP_LD || (kind == OP_CAS && !ok)) {
		int m = (kind == OP_LD) ? mo : fmo;
		if (IS_ACQ (m)) for (i = 0; i < RT_MAXT; i++) if (e->vc[i] > f->vc[i]) f->vc[i] = e->vc[i];
		return;
	}
	if (kind == OP_ST) {
		if (IS_REL (mo)) memcpy (e->vc, f->vc, sizeof e->vc);   /* heads a new release sequence */
		else memset (e->vc, 0, sizeof e->vc);                    /* a relaxed store ends the sequence */
		if (IS_REL (mo)) f->vc[t]++;
		return;
	}
	/* successful RMW: continues the release sequence; adds own clock if release; joins if acquire */
	if (IS_ACQ (mo)) for (i = 0; i < RT_MAXT; i++) if (e->vc[i] > f->vc[i]) f->vc[i] = e->vc[i];
	if (IS_REL (mo)) { for (i = 0; i < RT_MAXT; i++) if (f->vc[i] > e->vc[i]) e->vc[i] = f->vc[i]; f->vc[t]++; }
}
static void hb_race (const char *what, const void *a, int other) {
	char nb[64];
	rt_violation ("O-hb", "%s of %s is not ordered by happens-before after a conflicting access by thread %d",
		      what, rt_addr_name (a, nb, sizeof nb), other);
}
static void hb_access (const void *a, int size, int is_write) {
	struct fiber *f = G->cur;
	int t, i, k;
	if (!G->hb_on || !f || !hb_tracked (a)) return;
	t = (int) (f - G->f);
	for (k = 0; k < size; k += 4) {
		struct hb_plain *e = hb_plain ((const void *) (((uintptr_t) a + k) & ~(uintptr_t) 3));
		if (e->wc != 0 && e->wt != (uint32_t) t && e->wc > f->vc[e->wt]) { hb_race (is_write ? "write" : "read", a, (int) e->wt); return; }
		if (is_write) {
			for (i = 0; i < RT_MAXT; i++) if (i != t && e->rd[i] > f->vc[i]) { hb_race ("write", a, i); return; }
			e->wt = (uint32_t) t; e->wc = f->vc[t];
			memset (e->rd, 0, sizeof e->rd);
		} else {
			e->rd[t] = f->vc[t];
		}
	}
}
static void hb_free_write (const char *p, size_t n) {
	size_t k;
	if (!G->hb_on || !G->cur) return;
	for (k = 0; k < n; k += 4) {
		/* only words that somebody touched need a check */
		uintptr_t h = ((uintptr_t) (p + k) >> 2) * 2654435761u; int i;
		for (i = 0; i < HB_PLAIN; i++) {
			struct hb_plain *e = &G->hp[(h + i) % HB_PLAIN];
			if (e->a == NULL) break;
			if (e->a == p + k) { hb_access (p + k, 4, 1); break; }
		}
		if (G->has_viol) return;
	}
}

/* ------------------------------------------------------------------ fibers */
static void to_main (struct fiber *f) {
	G->cur = NULL;
	swapcontext (&f->ctx, &G->mainctx);
}
static void park (int kind, void *addr, uint32_t a, uint32_t b, int mo, int fmo, const char *tag) {
	struct fiber *f = G ? G->cur : NULL;
	if (!f || f->noyield) return;
	f->pend.kind = kind; f->pend.addr = addr; f->pend.a = a; f->pend.b = b;
	f->pend.mo = mo; f->pend.fmo = fmo; f->pend.res = 0; f->pend.ok = 0; f->pend.tag = tag;
	f->pend.site = f->fdepth > 0 ? f->fstack[f->fdepth - 1] : NULL;
	f->pend.psite = f->fdepth > 1 ? f->fstack[f->fdepth - 2] : NULL;
	f->state = F_PARKED;
	to_main (f);
	f->last = f->pend;
	f->first = 1;
}
static void trampoline (int idx) {
	struct fiber *f = &G->f[idx];
	f->fn (f->arg);
	if (f->tls_waiter && f->tls_dest && !rt_no_exit_dest) {
		if (rt_exit_is_step) park (OP_EXIT, NULL, 0, 0, 0, 0, "exit");
		f->noyield++;
		f->tls_dest (f->tls_waiter);
		f->noyield--;
		f->last_waiter = f->tls_waiter;
		f->tls_waiter = NULL;
	}
	f->state = F_DONE;
	to_main (f);
	abort ();
}
void **rt_fiber_word;       /* a word of the code under test that is per-thread there (a thread-local variable): saved and restored on every switch */
static void run_fiber (struct fiber *f) {
	G->cur = f;
	if (rt_fiber_word) *rt_fiber_word = f->fiber_word;
	swapcontext (&G->mainctx, &f->ctx);
	if (rt_fiber_word) { f->fiber_word = *rt_fiber_word; *rt_fiber_word = NULL; }
	G->cur = NULL;
}
int rt_spawn (void (*fn) (void *), void *arg) {
	int idx = G->nf;
	struct fiber *f;
	if (idx >= RT_MAXT) { fprintf (stderr, "rt: too many threads\n"); _exit (2); }
	f = &G->f[idx];
	G->nf++;
	{ char *stk = f->stk; memset (f, 0, sizeof *f); f->stk = stk; }
	if (!f->stk) f->stk = mmap (0, STK_SIZE, PROT_READ | PROT_WRITE, MAP_PRIVATE | MAP_ANONYMOUS, -1, 0);
	f->fn = fn; f->arg = arg;
	f->vc[idx] = 1;
	getcontext (&f->ctx);
	f->ctx.uc_stack.ss_sp = f->stk; f->ctx.uc_stack.ss_size = STK_SIZE; f->ctx.uc_link = &G->mainctx;
	makecontext (&f->ctx, (void (*) (void)) trampoline, 1, idx);
	f->state = F_PARKED;
	f->pend.kind = OP_NONE;
	run_fiber (f);
	return idx;
}
int rt_nthreads (void) { return G->nf; }
int rt_state (int t) { return G->f[t].state; }
int rt_self (void) { return G->cur ? (int) (G->cur - G->f) : -1; }
long rt_steps (void) { return G->steps; }
const struct rt_op *rt_pending (int t) { return &G->f[t].pend; }
const struct rt_op *rt_last (int t) { return &G->f[t].last; }
int64_t rt_now (void) { return G->now; }
void rt_tick (void) { G->now++; }
void rt_set_now (int64_t t) { G->now = t; }
static int expired (int64_t sec, int64_t nsec) {
	int64_t nowsec = G->now * RT_TICK_SEC;
	return nowsec > sec || (nowsec == sec && 0 >= nsec);
}
int rt_enabled (int t) {
	struct fiber *f = &G->f[t];
	if (f->state == F_PARKED) {
		if (f->pend.kind == OP_SEMP) return *(volatile int *) f->pend.addr > 0;
		if (f->pend.kind == OP_SEMPD) return *(volatile int *) f->pend.addr > 0 || (f->pend_timed && expired (f->pend_sec, f->pend_nsec));
		if (f->pend.kind == OP_LOCK) { extern int rt_ideal_can_lock (void *mu, int mode, int tid) __attribute__ ((weak));
			return rt_ideal_can_lock ? rt_ideal_can_lock (f->pend.addr, (int) f->pend.a, t) : 1; }
		if (f->pend.kind == OP_CLIENT && rt_client_gate) return rt_client_gate (t);
		return 1;
	}
	if (f->state == F_BLOCKED) return f->woken || f->fault || (f->blk_timed && expired (f->blk_sec, f->blk_nsec));
	return 0;
}
int rt_all_done (void) { int i; for (i = 0; i < G->nf; i++) if (G->f[i].state != F_DONE) return 0; return 1; }
int rt_any_enabled (void) { int i; for (i = 0; i < G->nf; i++) if (rt_enabled (i)) return 1; return 0; }
void rt_grant_choice (int t, int choice) {
	struct fiber *f = &G->f[t];
	f->choice = choice;
	G->steps++; G->total_steps++;
	if (f->state == F_BLOCKED) { f->last = f->pend; f->last.kind = OP_FWAIT; f->last.tag = "wake"; f->first = 0; }
	run_fiber (f);
}
void rt_grant (int t) { rt_grant_choice (t, 0); }
void rt_fault_futex (int t, int err) { if (G->f[t].state == F_BLOCKED) { G->f[t].fault = 1; G->f[t].fault_err = err; } }
void rt_track_stack_frames (int on) { G->track_stack = on; }
/* is some thread in a timed wait whose deadline is still ahead (so that advancing the clock can make progress)? */
int rt_timed_waiter_pending (void) {
	int i;
	for (i = 0; i < G->nf; i++) {
		struct fiber *f = &G->f[i];
		if (f->state == F_PARKED && f->pend.kind == OP_SEMPD && f->pend_timed && !expired (f->pend_sec, f->pend_nsec)) return 1;
		if (f->state == F_BLOCKED && f->blk_timed && !expired (f->blk_sec, f->blk_nsec)) return 1;
	}
	return 0;
}
void rt_dead_mark (const void *p, size_t n, int owner, const char *what) {
	if (G->ndead < 16) { G->dead[G->ndead].p = p; G->dead[G->ndead].n = n; G->dead[G->ndead].owner = owner; snprintf (G->dead[G->ndead].what, sizeof G->dead[0].what, "%s", what); G->ndead++; }
}
void rt_dead_clear (int owner) { int i, j = 0; for (i = 0; i < G->ndead; i++) if (G->dead[i].owner != owner) G->dead[j++] = G->dead[i]; G->ndead = j; }

void rt_point (const char *tag) { park (OP_CLIENT, NULL, 0, 0, 0, 0, tag); }
int rt_choose (const char *tag) { park (OP_CLIENT, NULL, 0, 0, 0, 0, tag); return G->cur ? G->cur->choice : 0; }
void rt_region_begin (int kind, void *addr, const char *tag) { park (kind, addr, 0, 0, 0, 0, tag); if (G->cur) G->cur->noyield++; }
void rt_region_begin2 (int kind, void *addr, const char *tag, unsigned a) { park (kind, addr, a, 0, 0, 0, tag); if (G->cur) G->cur->noyield++; }
/* ideal-lock happens-before edges (L2): acquire joins the lock's clock, release publishes the holder's */
void rt_hb_lock_acquire (const void *mu) { hb_atomic (OP_LD, mu, 2, 0, 1); }
void rt_hb_lock_release (const void *mu) { hb_atomic (OP_RMW, mu, 3, 0, 1); }
int rt_no_exit_dest = 0;
void rt_region_end (void) { if (G->cur) G->cur->noyield--; }
void rt_noyield_begin (void) { if (G->cur) G->cur->noyield++; }
void rt_noyield_end (void) { if (G->cur) G->cur->noyield--; }

/* ------------------------------------------------------------------ crash / hang landing */
static void crash_landing (void) {
	struct fiber *f = G->cur;
	f->crashed = 1;
	f->state = F_DONE;
	G->crashed = 1;
	to_main (f);
	abort ();
}
long rt_watchdog_hits;      /* how often the watchdog has fired in this process (each costs seconds: callers stop after a few) */
static void on_signal (int sig, siginfo_t *si, void *ucv) {
	ucontext_t *uc = ucv;
	if (sig == SIGVTALRM && (!G || !G->cur)) return;
	if (!G || !G->cur) {
		static const char m[] = "rt: fatal signal outside a fiber\n";
		if (write (2, m, sizeof m - 1)) {}
		_exit (2);
	}
	if (sig == SIGVTALRM) {
		/* progress is judged on a counter that rt_reset never clears: the per-run counter restarts at 0 with every schedule, and a later run
		   standing at the same count as when the previous alarm came looked like 'no progress' (about one alarm in a hundred) */
		if (G->total_steps != G->alarm_steps) { G->alarm_steps = G->total_steps; return; }
	}
	if (sig == SIGVTALRM) { rt_watchdog_hits++; rt_violation ("O-prog", "thread ran for several seconds of CPU time without reaching a scheduling point (unbounded loop on plain memory)"); }
	else rt_violation ("O-crash", "signal %d at address %p (nsync ASSERT failure or wild access)", sig, si->si_addr);
	uc->uc_mcontext.gregs[REG_RIP] = (greg_t) (uintptr_t) crash_landing;
	uc->uc_mcontext.gregs[REG_RSP] = (greg_t) (((uintptr_t) G->cur->stk + STK_SIZE / 2) & ~(uintptr_t) 15) - 8;
}
void nsync_panic_ (const char *s) {
	char m[200]; size_t n;
	snprintf (m, sizeof m, "%s", s);
	n = strlen (m); if (n && m[n - 1] == '\n') m[n - 1] = 0;
	rt_violation ("O-crash", "nsync_panic_: %s", m);
	if (G->cur) crash_landing ();
	fprintf (stderr, "rt: nsync_panic_ outside a fiber: %s\n", s);
	_exit (2);
}

/* ------------------------------------------------------------------ tsan interface */
void __tsan_init (void) {}
void __tsan_func_entry (void *pc) {
	struct fiber *f = G ? G->cur : NULL;
	void *ra = __builtin_return_address (0);
	(void) pc;
	if (!f) return;
	if (f->fdepth < FSTACK) f->fstack[f->fdepth] = ra;
	f->fdepth++;
	if (nsync_spin_delay_ && (char *) ra >= (char *) &nsync_spin_delay_ && (char *) ra < (char *) &nsync_spin_delay_ + 48)
		park (OP_DELAY, NULL, 0, 0, 0, 0, "delay");
}
void __tsan_func_exit (void) { struct fiber *f = G ? G->cur : NULL; if (f && f->fdepth > 0) f->fdepth--; }
int rt_plain_steps;
static void plain_step (void *a) {
	struct fiber *f = G->cur;
	const char *c = a;
	if (!rt_plain_steps || f->noyield) return;
	if (c >= G->arena && c < G->arena + ARENA_SIZE) park (OP_PLAIN, a, 0, 0, 0, 0, NULL);
	else if (!(c >= f->stk && c < f->stk + STK_SIZE)) {
		int i;
		for (i = 0; i < G->nf; i++) if (c >= G->f[i].stk && c < G->f[i].stk + STK_SIZE) { park (OP_PLAIN, a, 0, 0, 0, 0, NULL); break; }
	}
}
#define PLAIN(n) \
	void __tsan_read##n (void *a) { if (G && G->cur) { plain_step (a); check_access (a, n, 0, 0); hb_access (a, n, 0); if (rt_on_access) rt_on_access (a, n, 0, rt_self ()); } } \
	void __tsan_write##n (void *a) { if (G && G->cur) { plain_step (a); check_access (a, n, 1, 0); hb_access (a, n, 1); if (rt_on_access) rt_on_access (a, n, 1, rt_self ()); } } \
	void __tsan_unaligned_read##n (void *a) { __tsan_read##n (a); } \
	void __tsan_unaligned_write##n (void *a) { __tsan_write##n (a); }
PLAIN (1) PLAIN (2) PLAIN (4) PLAIN (8) PLAIN (16)
void __tsan_read_range (void *a, long n) { if (G && G->cur) { check_access (a, (int) n, 0, 0); hb_access (a, (int) n, 0); } }
void __tsan_write_range (void *a, long n) { if (G && G->cur) { check_access (a, (int) n, 1, 0); hb_access (a, (int) n, 1); } }
void __tsan_vptr_update (void **a, void *b) { (void) a; (void) b; }
void __tsan_vptr_read (void **a) { (void) a; }

static void post (uint32_t res, int ok) {
	struct fiber *f = G ? G->cur : NULL;
	if (f && f->first) { f->last.res = res; f->last.ok = ok; f->first = 0; }
}
static void ord_note (int kind, int mo, int fmo, void *addr) {
	struct fiber *f = G ? G->cur : NULL;
	if (f && G->ord_cb) G->ord_cb (f->fdepth > 0 ? f->fstack[f->fdepth - 1] : NULL, f->fdepth > 1 ? f->fstack[f->fdepth - 2] : NULL, kind, mo, fmo, addr);
}
void rt_set_ord_cb (rt_ord_cb cb) { G->ord_cb = cb; }
uint32_t __tsan_atomic32_load (const volatile uint32_t *a, int mo) {
	uint32_t v;
	park (OP_LD, (void *) a, 0, 0, mo, 0, NULL);
	if (G && G->cur) check_access ((const void *) a, 4, 0, 1);
	v = *a;
	post (v, 1);
	hb_atomic (OP_LD, (const void *) a, mo, 0, 1);
	ord_note (OP_LD, mo, 0, (void *) a);
	return v;
}
void __tsan_atomic32_store (volatile uint32_t *a, uint32_t v, int mo) {
	park (OP_ST, (void *) a, v, 0, mo, 0, NULL);
	if (G && G->cur) check_access ((const void *) a, 4, 1, 1);
	*a = v;
	post (v, 1);
	hb_atomic (OP_ST, (const void *) a, mo, 0, 1);
	ord_note (OP_ST, mo, 0, (void *) a);
}
static int cas32 (volatile uint32_t *a, uint32_t *c, uint32_t v, int mo, int fmo) {
	int ok;
	park (OP_CAS, (void *) a, *c, v, mo, fmo, NULL);
	if (G && G->cur) check_access ((const void *) a, 4, 1, 1);
	if (*a == *c) { *a = v; ok = 1; post (*c, 1); }
	else { post (*a, 0); *c = *a; ok = 0; }
	hb_atomic (OP_CAS, (const void *) a, mo, fmo, ok);
	ord_note (OP_CAS, mo, fmo, (void *) a);
	return ok;
}
int __tsan_atomic32_compare_exchange_strong (volatile uint32_t *a, uint32_t *c, uint32_t v, int mo, int fmo) { return cas32 (a, c, v, mo, fmo); }
int __tsan_atomic32_compare_exchange_weak (volatile uint32_t *a, uint32_t *c, uint32_t v, int mo, int fmo) { return cas32 (a, c, v, mo, fmo); }
uint32_t __tsan_atomic32_compare_exchange_val (volatile uint32_t *a, uint32_t c, uint32_t v, int mo, int fmo) { cas32 (a, &c, v, mo, fmo); return c; }
#define RMW(name, expr) \
	uint32_t __tsan_atomic32_##name (volatile uint32_t *a, uint32_t v, int mo) { \
		uint32_t old; \
		park (OP_RMW, (void *) a, v, 0, mo, 0, #name); \
		if (G && G->cur) check_access ((const void *) a, 4, 1, 1); \
		old = *a; *a = (expr); post (old, 1); \
		hb_atomic (OP_RMW, (const void *) a, mo, 0, 1); \
		ord_note (OP_RMW, mo, 0, (void *) a); \
		return old; }
RMW (exchange, v) RMW (fetch_add, old + v) RMW (fetch_sub, old - v) RMW (fetch_and, old & v) RMW (fetch_or, old | v) RMW (fetch_xor, old ^ v)
void __tsan_atomic_thread_fence (int mo) { (void) mo; }
void __tsan_atomic_signal_fence (int mo) { (void) mo; }
/* 8/64-bit atomics do not occur in nsync; provide loads/stores so that a change using them still links */
uint64_t __tsan_atomic64_load (const volatile uint64_t *a, int mo) { (void) mo; return *a; }
void __tsan_atomic64_store (volatile uint64_t *a, uint64_t v, int mo) { (void) mo; *a = v; }
uint8_t __tsan_atomic8_load (const volatile uint8_t *a, int mo) { (void) mo; return *a; }
void __tsan_atomic8_store (volatile uint8_t *a, uint8_t v, int mo) { (void) mo; *a = v; }

void AnnotateIgnoreReadsBegin (const char *f, int l) { (void) f; (void) l; }
void AnnotateIgnoreReadsEnd (const char *f, int l) { (void) f; (void) l; }
void AnnotateIgnoreWritesBegin (const char *f, int l) { (void) f; (void) l; }
void AnnotateIgnoreWritesEnd (const char *f, int l) { (void) f; (void) l; }
void AnnotateRWLockCreate (const char *f, int l, void *m) { (void) f; (void) l; (void) m; }
static struct muocc *occ (const void *mu) {
	int i;
	for (i = 0; i < G->nmu; i++) if (G->mu[i].mu == mu) return &G->mu[i];
	if (G->nmu >= MAXMU) return NULL;
	memset (&G->mu[G->nmu], 0, sizeof G->mu[0]);
	G->mu[G->nmu].mu = mu;
	return &G->mu[G->nmu++];
}
void AnnotateRWLockAcquired (const char *file, int line, void *mu, long w) {
	struct muocc *o;
	int t = rt_self ();
	char nb[64];
	(void) file; (void) line;
	if (!G || t < 0) return;
	o = occ (mu);
	if (!o) return;
	if (w) {
		if (o->writers || o->readers)
			rt_violation ("O-excl", "thread %d acquired %s in write mode while it is held (writers=%d readers=%d)", t, rt_addr_name (mu, nb, sizeof nb), o->writers, o->readers);
		o->writers++; o->mode[t] = 1;
	} else {
		if (o->writers)
			rt_violation ("O-excl", "thread %d acquired %s in read mode while a writer holds it", t, rt_addr_name (mu, nb, sizeof nb));
		o->readers++; o->mode[t] = 2;
	}
	if (rt_on_acquire) rt_on_acquire (mu, (int) w, t);
}
void AnnotateRWLockReleased (const char *file, int line, void *mu, long w) {
	struct muocc *o;
	int t = rt_self ();
	(void) file; (void) line;
	if (!G || t < 0) return;
	o = occ (mu);
	if (!o) return;
	if (w) { if (o->writers > 0) o->writers--; } else { if (o->readers > 0) o->readers--; }
	o->mode[t] = 0;
	if (rt_on_release) rt_on_release (mu, (int) w, t);
}
int rt_holders (const void *mu, int *writers, int *readers) {
	struct muocc *o = occ (mu);
	if (writers) *writers = o ? o->writers : 0;
	if (readers) *readers = o ? o->readers : 0;
	return o ? o->writers + o->readers : 0;
}
int rt_held_by (const void *mu, int t) { struct muocc *o = occ (mu); return o ? o->mode[t] : 0; }

/* ------------------------------------------------------------------ platform layer of nsync */
void *nsync_per_thread_waiter_ (void (*dest) (void *)) { (void) dest; return G->cur ? G->cur->tls_waiter : NULL; }
void nsync_set_per_thread_waiter_ (void *v, void (*dest) (void *)) { if (G->cur) { G->cur->tls_waiter = v; G->cur->tls_dest = dest; } }
void nsync_yield_ (void) {}

int __wrap_clock_gettime (clockid_t id, struct timespec *ts) {
	(void) id;
	ts->tv_sec = (time_t) (G->now * RT_TICK_SEC);
	ts->tv_nsec = 0;
	return 0;
}
int __wrap_nanosleep (const struct timespec *req, struct timespec *rem) { (void) req; if (rem) { rem->tv_sec = 0; rem->tv_nsec = 0; } return 0; }

long __wrap_syscall (long nr, ...) {
	va_list ap;
	int *uaddr; int op, val; const struct timespec *ts;
	struct fiber *f = G->cur;
	int cmd, i, n;
	va_start (ap, nr);
	uaddr = va_arg (ap, int *); op = va_arg (ap, int); val = va_arg (ap, int); ts = va_arg (ap, const struct timespec *);
	va_end (ap);
	if (nr != SYS_futex) { errno = ENOSYS; return -1; }
	cmd = op & 127;
	if (cmd == FUTEX_WAKE) {
		park (OP_FWAKE, uaddr, (uint32_t) val, 0, 0, 0, NULL);
		n = 0;
		for (i = 0; i < G->nf && n < val; i++) {
			struct fiber *o = &G->f[i];
			if (o->state == F_BLOCKED && o->blk_addr == (void *) uaddr && !o->woken) { o->woken = 1; n++; }
		}
		post ((uint32_t) n, 1);
		return n;
	}
	if (cmd != FUTEX_WAIT && cmd != FUTEX_WAIT_BITSET) { errno = ENOSYS; return -1; }
	park (OP_FWAIT, uaddr, (uint32_t) val, ts != NULL, 0, 0, NULL);
	if (ts != NULL && (ts->tv_sec < 0 || ts->tv_nsec < 0 || ts->tv_nsec >= 1000000000L)) { post (EINVAL, 0); errno = EINVAL; return -1; }
	if (!f) { errno = EAGAIN; return -1; }
	check_access (uaddr, 4, 0, 1);
	if (*(volatile int *) uaddr != val) { post (EAGAIN, 0); errno = EAGAIN; return -1; }
	if (ts != NULL && cmd == FUTEX_WAIT_BITSET && expired (ts->tv_sec, ts->tv_nsec)) { post (ETIMEDOUT, 0); errno = ETIMEDOUT; return -1; }
	/* sleep */
	f->blk_addr = uaddr; f->blk_timed = ts != NULL;
	if (ts) { f->blk_sec = ts->tv_sec; f->blk_nsec = ts->tv_nsec; }
	f->woken = 0; f->fault = 0;
	f->state = F_BLOCKED;
	post (0, 1);
	to_main (f);
	f->state = F_PARKED;
	f->blk_addr = NULL;
	if (f->woken) { f->woken = 0; f->last.res = 0; return 0; }
	if (f->fault) { f->fault = 0; f->last.res = (uint32_t) f->fault_err; if (f->fault_err == 0) return 0; errno = f->fault_err; return -1; }
	f->last.res = ETIMEDOUT;
	errno = ETIMEDOUT;
	return -1;
}

/* semaphore calls as single steps */
struct nsync_semaphore_s_;
struct timespec;
void __real_nsync_mu_semaphore_p (struct nsync_semaphore_s_ *s) __attribute__ ((weak));
int __real_nsync_mu_semaphore_p_with_deadline (struct nsync_semaphore_s_ *s, struct timespec d) __attribute__ ((weak));
void __real_nsync_mu_semaphore_v (struct nsync_semaphore_s_ *s) __attribute__ ((weak));
void __wrap_nsync_mu_semaphore_p (struct nsync_semaphore_s_ *s) {
	struct fiber *f = G->cur;
	if (rt_sem_single_step && f && !f->noyield) {
		park (OP_SEMP, s, 0, 0, 0, 0, NULL);
		f->noyield++; __real_nsync_mu_semaphore_p (s); f->noyield--;
	} else __real_nsync_mu_semaphore_p (s);
}
int __wrap_nsync_mu_semaphore_p_with_deadline (struct nsync_semaphore_s_ *s, struct timespec d) {
	struct fiber *f = G->cur;
	int r;
	if (rt_sem_single_step && f && (!f->noyield || (f->in_swc && f->noyield == 1))) {
		int saved = f->noyield;
		/* nsync_time_no_deadline has tv_sec = max time_t */
		f->pend_timed = !(d.tv_sec == (time_t) (((uint64_t) 1 << 63) - 1));
		f->pend_sec = d.tv_sec; f->pend_nsec = d.tv_nsec;
		f->noyield = 0;
		park (OP_SEMPD, s, 0, 0, 0, 0, NULL);
		f->noyield = saved + 1; r = __real_nsync_mu_semaphore_p_with_deadline (s, d); f->noyield = saved;
		f->last.res = (uint32_t) r;
	} else r = __real_nsync_mu_semaphore_p_with_deadline (s, d);
	return r;
}
void __wrap_nsync_mu_semaphore_v (struct nsync_semaphore_s_ *s) {
	struct fiber *f = G->cur;
	if (rt_sem_single_step && f && !f->noyield) {
		park (OP_SEMV, s, 0, 0, 0, 0, NULL);
		f->noyield++; __real_nsync_mu_semaphore_v (s); f->noyield--;
	} else __real_nsync_mu_semaphore_v (s);
}

/* nsync_sem_wait_with_cancel_: [region: check note + register] [sleep = OP_SEMPD, then deregister] */
int __real_nsync_sem_wait_with_cancel_ (void *w, struct timespec d, void *note) __attribute__ ((weak));
int __wrap_nsync_sem_wait_with_cancel_ (void *w, struct timespec d, void *note) {
	struct fiber *f = G->cur;
	int r;
	if (rt_sem_single_step && rt_swc_region && f && !f->noyield) {
		park (OP_REGION, note, 0, 0, 0, 0, "swc");
		f->noyield++; f->in_swc = 1;
		r = __real_nsync_sem_wait_with_cancel_ (w, d, note);
		f->in_swc = 0; f->noyield--;
	} else r = __real_nsync_sem_wait_with_cancel_ (w, d, note);
	return r;
}
/* the waiter pool is not modelled at L1/L2: its functions run without scheduling points */
void *__real_nsync_waiter_new_ (void) __attribute__ ((weak));
void __real_nsync_waiter_free_ (void *w) __attribute__ ((weak));
void *__wrap_nsync_waiter_new_ (void) { struct fiber *f = G->cur; void *w; if (f) f->noyield++; w = __real_nsync_waiter_new_ (); if (f) f->noyield--; return w; }
void __wrap_nsync_waiter_free_ (void *w) { struct fiber *f = G->cur; if (f) f->noyield++; __real_nsync_waiter_free_ (w); if (f) f->noyield--; }
void *rt_tls_waiter (int t) { return G->f[t].tls_waiter; }
/* run the per-thread destructor of the calling fiber now, with its operations scheduled like any others (Pool.tla's wexit) */
void rt_run_tls_dest_fine (void) {
	struct fiber *f = G->cur;
	if (f && f->tls_waiter && f->tls_dest) { void *w = f->tls_waiter; void (*d) (void *) = f->tls_dest; f->last_waiter = w; f->tls_waiter = NULL; d (w); }
}
int rt_stack_owner (const void *p) { int i; for (i = 0; i < G->nf; i++) if ((const char *) p >= G->f[i].stk && (const char *) p < G->f[i].stk + STK_SIZE) return i; return -1; }
int rt_exit_is_step = 0;
int rt_swc_region = 1;

/* ------------------------------------------------------------------ init / snapshot / reset */
void rt_init (void) {
	struct sigaction sa;
	stack_t ss;
	G = mmap (0, sizeof *G, PROT_READ | PROT_WRITE, MAP_PRIVATE | MAP_ANONYMOUS, -1, 0);
	G->arena = mmap (0, ARENA_SIZE + 4096, PROT_READ | PROT_WRITE, MAP_PRIVATE | MAP_ANONYMOUS, -1, 0);
	G->now = RT_T0;
	ignored_oracles = getenv ("VERIF_IGNORE");
	soft_oracles = getenv ("VERIF_SOFT");
	rt_plain_steps = getenv ("VERIF_PLAIN") != NULL;
	load_symbols ();
	G->altstack = mmap (0, 65536, PROT_READ | PROT_WRITE, MAP_PRIVATE | MAP_ANONYMOUS, -1, 0);
	ss.ss_sp = G->altstack; ss.ss_size = 65536; ss.ss_flags = 0;
	sigaltstack (&ss, NULL);
	memset (&sa, 0, sizeof sa);
	sa.sa_sigaction = on_signal;
	sa.sa_flags = SA_SIGINFO | SA_ONSTACK | SA_NODEFER;
	sigaction (SIGSEGV, &sa, NULL);
	sigaction (SIGBUS, &sa, NULL);
	sigaction (SIGFPE, &sa, NULL);
	sigaction (SIGILL, &sa, NULL);
	sigaction (SIGABRT, &sa, NULL);
	sigaction (SIGVTALRM, &sa, NULL);
	/* watchdog on the process's own CPU time (not wall time: a loaded machine must not look like a stuck thread) */
	{ struct itimerval it; it.it_interval.tv_sec = 4; it.it_interval.tv_usec = 0; it.it_value = it.it_interval; setitimer (ITIMER_VIRTUAL, &it, NULL); }      /* user-mode CPU time of this process only: neither waiting for a CPU nor page-fault / reclaim time on a loaded machine counts */
}
void rt_snapshot (void) {
	if (__start_uutdata) {
		G->snap_lo = __start_uutdata; G->snap_n = (size_t) (__stop_uutdata - __start_uutdata);
		G->snap = realloc (G->snap, G->snap_n + 1);
		memcpy (G->snap, G->snap_lo, G->snap_n);
	}
	if (__start_uutbss) {
		G->snap2_lo = __start_uutbss; G->snap2_n = (size_t) (__stop_uutbss - __start_uutbss);
		G->snap2 = realloc (G->snap2, G->snap2_n + 1);
		memcpy (G->snap2, G->snap2_lo, G->snap2_n);
	}
	G->nnames_snap = G->nnames;
}
void rt_reset (void) {
	int i;
	if (G->snap) memcpy (G->snap_lo, G->snap, G->snap_n);
	if (G->snap2) memcpy (G->snap2_lo, G->snap2, G->snap2_n);
	for (i = 0; i < G->nf; i++) G->f[i].state = F_FREE;
	G->nf = 0; G->cur = NULL; G->steps = 0; G->now = RT_T0;
	G->brk = 0; G->nblk = 0; G->malloc_count = 0; G->fail_at = 0;
	G->nmu = 0; G->has_viol = 0; G->crashed = 0; G->ndead = 0;
	G->nnames = G->nnames_snap;
	if (G->hb_on) { memset (G->ha, 0, sizeof G->ha); memset (G->hp, 0, sizeof G->hp); }
}
int rt_blocked_woken (int t) { return G->f[t].state == F_BLOCKED && G->f[t].woken; }
