/* Deterministic runtime that stands in for libtsan: the code under test is compiled with
   gcc -fsanitize=thread and linked against this file, so every atomic operation, plain
   access, function entry and nsync annotation lands here.  Logical threads are ucontext
   fibers on one OS thread; a fiber parks before each shared operation and runs one step
   when the scheduler (the harness main) grants it.  See DESIGN.md 3.1-3.2. */
#ifndef VERIF_RT_H_
#define VERIF_RT_H_
#include <stdint.h>
#include <stddef.h>
#include <stdio.h>

#define RT_MAXT 8

enum rt_opkind {
	OP_NONE = 0,
	OP_LD, OP_ST, OP_CAS, OP_RMW,      /* atomic operations */
	OP_FWAIT, OP_FWAKE,                 /* futex system calls (when not inside a region) */
	OP_DELAY,                           /* entry of nsync_spin_delay_ */
	OP_CLIENT,                          /* explicit client park: rt_point()/rt_choose() */
	OP_SEMP, OP_SEMPD, OP_SEMV,         /* semaphore calls as single steps (L1/L2) */
	OP_REGION,                          /* other atomic region entry (named) */
	OP_LOCK, OP_UNLOCK,                 /* ideal-lock operations (L2) */
	OP_EXIT,                            /* thread exit (waiter destructor) */
	OP_PLAIN                            /* plain access to shared memory, a step only when rt_plain_steps is set */
};

enum rt_state { F_FREE = 0, F_PARKED, F_BLOCKED, F_DONE };

struct rt_op {
	int kind;
	void *addr;
	uint32_t a, b;       /* store value / cas expected, cas new */
	int mo, fmo;         /* requested memory orders (C++ enum values 0..5) */
	uint32_t res;        /* value read (ld, failed cas) */
	int ok;              /* cas success */
	const char *tag;     /* client label / region name */
	void *site;          /* innermost instrumented function at the operation */
	void *psite;         /* its caller */
};

struct rt_viol {
	char oracle[24];
	char msg[400];
	char fn[64];        /* innermost nsync function of the offending / stuck thread */
	int tid;
	long step;
};

/* ---- lifecycle ---- */
void rt_init (void);                       /* call first in main */
void rt_snapshot (void);                   /* take the snapshot rt_reset() restores */
void rt_reset (void);                      /* restore statics + arena, kill fibers, clock := start */
int  rt_spawn (void (*fn) (void *), void *arg);   /* returns tid; fiber runs to its first park */
/* ---- scheduling ---- */
int  rt_nthreads (void);
int  rt_state (int t);
int  rt_enabled (int t);                   /* may be granted now */
const struct rt_op *rt_pending (int t);    /* operation the fiber is parked at */
const struct rt_op *rt_last (int t);       /* operation it executed in its last step */
void rt_grant (int t);                     /* run one step */
void rt_grant_choice (int t, int choice);  /* same, delivering a value to rt_choose() */
int  rt_all_done (void);
int  rt_any_enabled (void);
long rt_steps (void);
int  rt_self (void);                       /* running fiber or -1 */
/* ---- environment ---- */
int64_t rt_now (void);                     /* virtual clock, in ticks */
void rt_tick (void);                       /* advance by one tick */
void rt_set_now (int64_t t);
#define RT_TICK_SEC 1000                   /* one tick = 1000 s of CLOCK_REALTIME */
#define RT_T0 1000                         /* clock value at reset, in ticks */
void rt_fault_futex (int t, int err);      /* make blocked fiber t return from futex wait with errno err (0 = spurious) */
void rt_fail_malloc_at (long k);           /* fail the k-th malloc from now (1-based); 0 = never */
long rt_malloc_count (void);
/* ---- client side (called from fibers) ---- */
void rt_point (const char *tag);           /* park as OP_CLIENT */
int  rt_choose (const char *tag);          /* park as OP_CLIENT, return the granted choice */
void rt_region_begin (int kind, void *addr, const char *tag); /* park, then run without parking until _end */
void rt_region_end (void);
void rt_region_begin2 (int kind, void *addr, const char *tag, unsigned a);
extern int rt_swc_region;                  /* 1: nsync_sem_wait_with_cancel_'s note bookkeeping runs as atomic regions (L1); 0: fine-grained */
extern int rt_no_exit_dest;                /* 1: do not run the waiter destructor at thread exit (L2) */
void rt_noyield_begin (void);              /* no park at all (harness bookkeeping inside a fiber) */
void rt_noyield_end (void);
/* ---- memory ---- */
void *rt_malloc (size_t n);                /* arena allocation (also behind malloc in code under test) */
void rt_free (void *p);
int  rt_is_freed (const void *p);
int  rt_block_owner (const void *p);       /* fiber that allocated the arena block containing p, or -1 */
void rt_name (const void *p, size_t n, const char *name);   /* give an address range a symbolic name */
const char *rt_addr_name (const void *p, char *buf, size_t n);
const char *rt_fn_name (const void *pc, char *buf, size_t n);
const char *rt_op_fn (const struct rt_op *o, char *buf, size_t n);   /* nsync function doing the operation (skips atomic.h helper frames) */
void rt_track_stack_frames (int on);       /* O-mem on dead stack bytes */
void rt_dead_mark (const void *p, size_t n, int owner, const char *what);  /* object whose owner's call has returned */
void rt_dead_clear (int owner);
int rt_timed_waiter_pending (void);
/* ---- oracles ---- */
void rt_violation (const char *oracle, const char *fmt, ...);
const struct rt_viol *rt_first_violation (void);   /* NULL if none since reset */
int  rt_crashed (void);
/* shadow lock occupancy (O-excl): driven by AnnotateRWLockAcquired/Released */
int  rt_holders (const void *mu, int *writers, int *readers);
int  rt_held_by (const void *mu, int t);   /* 0 none, 1 write, 2 read */
/* happens-before engine (O-hb) */
void rt_hb_enable (int on);
void rt_hb_track (const void *p, size_t n); /* only accesses inside tracked ranges are race-checked */
void rt_hb_untrack_all (void);
/* memory orders actually requested, per call site */
typedef void (*rt_ord_cb) (void *site, void *psite, int kind, int mo, int fmo, void *addr);
void rt_set_ord_cb (rt_ord_cb cb);
/* hooks the harness may install */
extern void (*rt_on_acquire) (void *mu, int writer, int tid);
extern void (*rt_on_release) (void *mu, int writer, int tid);
extern void (*rt_on_access) (void *addr, int size, int is_write, int tid);
extern int (*rt_client_gate) (int tid);   /* may a fiber parked at a client point proceed? (scenario gates) */
/* step granularity */
extern int rt_sem_single_step;             /* 1: semaphore calls are single steps (L1/L2); 0: park inside (Sem) */
extern int rt_binary_sem;                  /* 1: V saturates at 1 (binary semaphore flavour) */
extern int rt_exit_is_step;                /* 1: the thread-exit waiter destructor is a separate step */
extern void **rt_fiber_word;               /* address of a per-thread word of the code under test (swapped on every fiber switch), or NULL */
void *rt_tls_waiter (int t);               /* fiber t's cached nsync waiter (or NULL) */
int rt_in_function (int t, const char *name);   /* is fiber t inside that function (any frame)? */
int rt_stack_owner (const void *p);        /* fiber whose stack contains p, or -1 */
int rt_blocked_woken (int t);
/* logging */
extern FILE *rt_log;                       /* if non-NULL each granted step is appended as one JSON line by the harness */
const char *rt_kind_name (int kind);
void rt_touch (const void *addr, int is_write);
extern long rt_watchdog_hits;
int rt_fail_pending (void);
int rt_should_save (const char *oracle);
long rt_soft_hits (void);
void rt_report_soft (FILE *out);
void *rt_data_sym (const char *name);
void rt_run_tls_dest_fine (void);
extern int rt_plain_steps;                 /* 1 (VERIF_PLAIN): plain accesses to heap objects and to other threads' stacks are scheduling points too,
                                              so that code whose plain accesses race is explored at their granularity */
#endif
