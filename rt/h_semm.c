/* C12 harness for the mutex + condition-variable semaphore (platform/posix/src/nsync_semaphore_mutex.c; the C++11 build's
   nsync_semaphore_mutex.cc is the same algorithm over std::mutex / std::condition_variable): the real file against the pthread
   model of ideal_pthread.c; lock-step replay of SemMC.tla behaviours. */
#define _GNU_SOURCE
#include <errno.h>
#include <pthread.h>
#include <stdint.h>
#include <stdio.h>
#include <stdlib.h>
#include <string.h>
#include <time.h>
#include "rt.h"
#include "replay.h"

typedef struct nsync_semaphore_s_ { void *sem_space[32]; } nsync_semaphore;
#define WANT_UUT_MUTEX_COND_STRUCT
#include "uut_structs.h"       /* struct mutex_cond as the tree under test defines it */
#ifndef HAVE_UUT_MUTEX_COND_STRUCT
struct mutex_cond { pthread_mutex_t mu; pthread_cond_t cv; uint32_t i; };      /* layout of nsync_semaphore_mutex.c */
#endif
void nsync_mu_semaphore_init (nsync_semaphore *s);
void nsync_mu_semaphore_p (nsync_semaphore *s);
int nsync_mu_semaphore_p_with_deadline (nsync_semaphore *s, struct timespec abs_deadline);
void nsync_mu_semaphore_v (nsync_semaphore *s);
extern void rt_ideal_reset (void);
extern int rt_pt_holder (const void *mu), rt_pt_waiting (const void *cv, int t), rt_pt_signalled (const void *cv, int t), rt_pt_last_result (int t);
extern void rt_pt_inject (int t, int kind);

static struct {
	int NP, WOps, POps, Timed, DL, MaxNow;
	nsync_semaphore *s; struct mutex_cond *mc;
	int res, r;
	int vs_started, vs_done, takes, pending;
} S;

static void waiter (void *arg) {
	int n = 0;
	(void) arg;
	for (;;) {
		rt_point ("c0");
		if (n == S.WOps) break;
		n++;
		if (S.Timed) {
			struct timespec d;
			d.tv_sec = (time_t) ((RT_T0 + S.DL) * (long) RT_TICK_SEC); d.tv_nsec = 0;
			S.res = nsync_mu_semaphore_p_with_deadline (S.s, d);
			if (S.res == ETIMEDOUT && rt_now () < RT_T0 + S.DL)
				rt_violation ("O-ret", "timed P returned ETIMEDOUT at clock %ld, before its deadline %d", (long) (rt_now () - RT_T0), S.DL);
			if (S.res != 0 && S.res != ETIMEDOUT) rt_violation ("O-ret", "timed P returned %d", S.res);
		} else {
			nsync_mu_semaphore_p (S.s);
			S.res = 0;
		}
		if (S.res == 0) {
			S.takes++; S.pending = 0;
			if (S.takes > S.vs_started) rt_violation ("O-lin", "P returned success %d times but only %d V calls have begun", S.takes, S.vs_started);
		}
	}
}
static void poster (void *arg) {
	int m = 0;
	(void) arg;
	for (;;) {
		rt_point ("d0");
		if (m == S.POps) break;
		m++;
		S.vs_started++;
		nsync_mu_semaphore_v (S.s);
		S.vs_done++; S.pending = 1;
	}
}
static int geti (const char *s, const char *key, int dflt) {
	const char *p = strstr (s, key);
	if (!p) return dflt;
	return atoi (p + strlen (key));
}
static void setup (const char *init) {
	int i;
	memset (&S, 0, sizeof S);
	S.NP = geti (init, "NP=", 1); S.WOps = geti (init, "WOps=", 1); S.POps = geti (init, "POps=", 1);
	S.Timed = geti (init, "Timed=", 0); S.DL = geti (init, "DL=", 1); S.MaxNow = geti (init, "MaxNow=", 0);
	S.res = -1;
	rt_ideal_reset ();
	S.s = rt_malloc (sizeof *S.s); S.mc = (struct mutex_cond *) S.s;
	nsync_mu_semaphore_init (S.s);
	rt_name (S.s, sizeof *S.s, "sem");
	rt_spawn (waiter, NULL);
	for (i = 0; i < S.NP; i++) rt_spawn (poster, NULL);
}
static const char *kind_of (const char *label) {
	size_t n = strlen (label);
	if (!strcmp (label, "c0") || !strcmp (label, "d0")) return "c";
	if (!strcmp (label, "mp_wk")) return "lock";
	if (!strcmp (label, "mp_cw") || !strcmp (label, "mv_bc")) return "region";
	if (n > 3 && !strcmp (label + n - 3, "_lk")) return "lock";
	if (n > 3 && !strcmp (label + n - 3, "_ul")) return "unlock";
	return NULL;
}
static int pre (int actor, const char *label, const char *prev, const char *exp, char *why, size_t whyn) {
	int t = actor - 1;
	const char *k = kind_of (label);
	if (rt_state (t) != F_PARKED) { snprintf (why, whyn, "spec: %s; the real thread is not at a scheduling point", label); return -1; }
	if (k && strcmp (k, rt_kind_name (rt_pending (t)->kind)) != 0) {
		snprintf (why, whyn, "spec expects %s (%s); the real code is about to do %s (%s)", label, k, rt_kind_name (rt_pending (t)->kind), rt_pending (t)->tag ? rt_pending (t)->tag : "-");
		return -1;
	}
	if (!strcmp (label, "mp_wk") && !rp_diverged) {
		/* which return of the condition-variable wait does the specification take?  signalled and genuine timeouts need nothing;
		   an early return is injected */
		int sig = geti (prev, "sig=", 0), now = geti (prev, "now=", 0), r = geti (exp, " r=", 0);
		if (!sig && r == 0) { rt_pt_inject (t, 1); rp_mark_nontrivial (); }                        /* spurious return (also possible after the deadline) */
		else if (!sig && !(S.Timed && now >= S.DL)) { rt_pt_inject (t, 2); rp_mark_nontrivial (); }  /* premature ETIMEDOUT */
	}
	return 0;
}
static void post (int actor, const char *label) {
	const struct rt_op *o = rt_last (actor - 1);
	(void) label;
	if (actor == 1 && o->kind == OP_LOCK && o->tag && !strcmp (o->tag, "lock")) S.r = 0;
	if (actor == 1 && o->kind == OP_LOCK && o->tag && !strcmp (o->tag, "wk")) S.r = rt_pt_last_result (0);
	if (o->kind == OP_LOCK) rp_mark_nontrivial ();
	/* a completed post is visible to whoever looks next: with the mutex free the word is 1 */
	if (S.pending && rt_pt_holder (&S.mc->mu) == 0 && S.mc->i != 1) rt_violation ("O-lin", "a V has completed since the last successful P but the count is %u", S.mc->i);
	if (S.mc->i > 1) rt_violation ("O-lin", "the binary semaphore's count is %u", S.mc->i);
}
static void env (const char *label, const char *exp) { (void) exp; if (!strcmp (label, "Tick")) rt_tick (); }
static void obs (char *buf, size_t n) {
	snprintf (buf, n, "i=%u mu=%d cvw=%d sig=%d now=%ld res=%d r=%d", S.mc->i, rt_pt_holder (&S.mc->mu), rt_pt_waiting (&S.mc->cv, 0),
		  rt_pt_signalled (&S.mc->cv, 0), (long) (rt_now () - RT_T0), S.res, S.r);
}
static void finish (int diverged) {
	int i, progress = 1, guard = 0;
	if (diverged) {
		while (!rt_all_done () && guard++ < 100000 && !rt_first_violation ()) {
			progress = 0;
			for (i = 0; i < rt_nthreads (); i++) if (rt_enabled (i)) { rt_grant (i); post (i + 1, "*"); progress = 1; }
			if (!progress) {
				if (S.Timed && rt_now () < RT_T0 + S.DL + 2) { rt_tick (); progress = 1; }
				else break;
			}
		}
	}
	if (rt_first_violation ()) return;
	{
		int posters_done = 1;
		for (i = 1; i < rt_nthreads (); i++) if (rt_state (i) != F_DONE) posters_done = 0;
		if (posters_done && rt_state (0) != F_DONE && !rt_enabled (0) && !rt_any_enabled () && S.mc->i > 0)
			rt_violation ("O-prog", "waiter asleep in the condition variable although the count is %u and every V has returned (lost post)", S.mc->i);
		if (diverged && guard >= 100000) rt_violation ("O-prog", "no termination within the step bound");
	}
}
int main (int argc, char **argv) {
	static struct rp_harness h = { setup, pre, env, obs, finish, post, NULL };
	struct rp_stats st;
	FILE *f;
	if (argc < 2) { fprintf (stderr, "usage: h_semm <schedule> [violdir]\n"); return 2; }
	rt_init ();
	rt_sem_single_step = 0;
	rt_snapshot ();
	memset (&st, 0, sizeof st);
	if (!strcmp (argv[1], "from") && argc >= 5) {
		f = fopen (argv[2], "r");
		if (!f) { perror (argv[2]); return 2; }
		return rp_explore_from (f, &h, atol (argv[3]), (unsigned) atol (argv[4]), argc > 5 ? argv[5] : NULL, "C12", NULL, 5000) ? 1 : 0;
	}
	f = strcmp (argv[1], "-") ? fopen (argv[1], "r") : stdin;
	if (!f) { perror (argv[1]); return 2; }
	rp_run (f, &h, &st, argc > 2 ? argv[2] : NULL, "C12");
	rp_print_stats (&st, stdout);
	rp_print_ord (stdout);
	return st.violations ? 1 : 0;
}
