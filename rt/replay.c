#define _GNU_SOURCE
#include <stdio.h>
#include <stdlib.h>
#include <string.h>
#include <unistd.h>
#include "rt.h"
#include "replay.h"

FILE *rp_replay_out;
int rp_diverged;
int rp_in_prefix;
static int nontrivial_flag;
void rp_mark_nontrivial (void) { nontrivial_flag = 1; }

/* label -> memory orders seen (Ord extraction, DESIGN 3.5) */
struct ordent { char label[40]; int kind, mo, fmo; long n; };
static struct ordent ords[512];
static int nords;
void rp_note_label (const char *label, int mo, int fmo, int kind) {
	int i;
	for (i = 0; i < nords; i++)
		if (ords[i].mo == mo && ords[i].fmo == fmo && ords[i].kind == kind && strcmp (ords[i].label, label) == 0) { ords[i].n++; return; }
	if (nords < 512) {
		snprintf (ords[nords].label, sizeof ords[0].label, "%s", label);
		ords[nords].kind = kind; ords[nords].mo = mo; ords[nords].fmo = fmo; ords[nords].n = 1; nords++;
	}
}
void rp_print_ord (FILE *out) {
	int i;
	for (i = 0; i < nords; i++)
		fprintf (out, "ORD %s %s %d %d %ld\n", ords[i].label, rt_kind_name (ords[i].kind), ords[i].mo, ords[i].fmo, ords[i].n);
}

struct lines { char **v; int n, cap; };
static void push (struct lines *l, const char *s) {
	if (l->n == l->cap) { l->cap = l->cap ? l->cap * 2 : 256; l->v = realloc (l->v, sizeof (char *) * (size_t) l->cap); }
	l->v[l->n++] = strdup (s);
}
static void clear (struct lines *l) { int i; for (i = 0; i < l->n; i++) free (l->v[i]); l->n = 0; }

static void save_tour (const struct lines *l, const char *dir, const char *prop, long k, char *path, size_t pn) {
	FILE *f; int i;
	snprintf (path, pn, "%s/%s_%ld.sched", dir, prop, k);
	f = fopen (path, "w");
	if (!f) return;
	for (i = 0; i < l->n; i++) fputs (l->v[i], f);
	fputs ("E\n", f);
	fclose (f);
}

/* the first few behaviours that leave the specification are saved up to (not including) the step at which they did:
   the caller continues them with many random schedules (rp_explore_from), judged by oracles only */
static long ndivsaved;
static void save_prefix (const struct lines *l, int n, const char *dir, const char *prop) {
	char path[512]; FILE *f; int i;
	if (!dir || ndivsaved >= 6 || n <= 0) return;
	snprintf (path, sizeof path, "%s/%s_div%d_%ld.sched", dir, prop, (int) getpid (), ++ndivsaved);
	f = fopen (path, "w");
	if (!f) return;
	for (i = 0; i < n && i < l->n; i++) fputs (l->v[i], f);
	fputs ("E\n", f);
	fclose (f);
	printf ("DIVFILE %s\n", path);
}
#define FLUSH_PENDING() do { if (have_pending && !diverged) { \
		h->obs (got, sizeof got); \
		if (strcmp (got, pend_exp) != 0) { \
			diverged = 1; st->mismatches++; save_prefix (&cur, cur.n - (in_flush_at_end ? 0 : 1), viol_dir, prop); \
			if (!st->first_mismatch[0]) \
				snprintf (st->first_mismatch, sizeof st->first_mismatch, \
					  "tour %ld step %ld label %s thread %d: state after the step differs: spec {%s} code {%s}", tour_id, pend_step, pend_label, pend_actor, pend_exp, got); \
		} \
		snprintf (prev, sizeof prev, "%s", pend_exp); \
	} have_pending = 0; } while (0)
int rp_run (FILE *sched, const struct rp_harness *h, struct rp_stats *st, const char *viol_dir, const char *prop) {
	char *line = NULL; size_t cap = 0;
	struct lines cur = { 0, 0, 0 };
	char prev[1024] = "", got[1024], why[256];
	int in_tour = 0, diverged = 0, have_pending = 0, pend_actor = 0, free_sched = 0, in_flush_at_end = 0, force_finish = 0;
	long pend_step = 0;
	char pend_exp[1024] = "", pend_label[64] = "";
	long tour_id = 0, stepno = 0;
	while (getline (&line, &cap, sched) > 0) {
		if (line[0] == 'T') {
			char *init = line + 1;
			if (st->violations >= 60 || rt_watchdog_hits >= 3) break;      /* enough failing behaviours (a livelock makes each of them slow) */
			while (*init == ' ') init++;
			tour_id = strtol (init, &init, 10);
			while (*init == ' ') init++;
			init[strcspn (init, "\n")] = 0;
			clear (&cur);
			{ char tmp[1200]; snprintf (tmp, sizeof tmp, "T %ld %s\n", tour_id, init); push (&cur, tmp); }
			rt_reset ();
			h->setup (init);
			in_tour = 1; diverged = 0; free_sched = 1; stepno = 0; force_finish = strstr (init, "cont=1") != NULL; nontrivial_flag = 0; prev[0] = 0; have_pending = 0;
			st->tours++;
		} else if (line[0] == 'S' && in_tour) {
			int actor = 0, off = 0;
			char label[64];
			const char *exp;
			push (&cur, line);
			if (sscanf (line, "S %d %63s %n", &actor, label, &off) < 2) continue;
			exp = line + off;
			line[strcspn (line, "\n")] = 0;
			if (label[0] != '*' && actor != 0) free_sched = 0;
			if (!(actor != 0 && strlen (label) > 2 && strcmp (label + strlen (label) - 2, "_l") == 0)) FLUSH_PENDING ();
			stepno++; st->steps++;
			if (actor == 0) {
				h->env (label, exp);
			} else if (strlen (label) > 2 && strcmp (label + strlen (label) - 2, "_l") == 0) {
				/* local step of the specification: no shared operation, nothing to execute */
			} else {
				int t = actor - 1, choice;
				why[0] = 0;
				rp_diverged = diverged;
				choice = (t < rt_nthreads ()) ? h->pre (actor, label, prev, exp, why, sizeof why) : -1;
				if (t >= rt_nthreads () || !rt_enabled (t)) {
					if (!diverged) {
						diverged = 1; st->mismatches++; save_prefix (&cur, cur.n - 1, viol_dir, prop);
						if (!st->first_mismatch[0])
							snprintf (st->first_mismatch, sizeof st->first_mismatch,
								  "tour %ld step %ld label %s: thread %d is not runnable in the real code (state %d, parked at %s)",
								  tour_id, stepno, label, actor, t < rt_nthreads () ? rt_state (t) : -1,
								  t < rt_nthreads () ? rt_kind_name (rt_pending (t)->kind) : "-");
					}
					continue;
				}
				if (choice < 0 && label[0] != '*') {
					if (!diverged) {
						diverged = 1; st->mismatches++; save_prefix (&cur, cur.n - 1, viol_dir, prop);
						if (!st->first_mismatch[0])
							snprintf (st->first_mismatch, sizeof st->first_mismatch, "tour %ld step %ld label %s thread %d: %s", tour_id, stepno, label, actor, why);
					}
					choice = 0;
				}
				if (choice < 0) choice = 0;
				rt_grant_choice (t, choice);
				if (!diverged) rp_note_label (label, rt_last (t)->mo, rt_last (t)->fmo, rt_last (t)->kind);    /* once a behaviour has left the specification its labels no longer name the code's sites */
				if (h->post) h->post (actor, label);
				if (h->learn && !diverged) h->learn (actor, label, exp);
			}
			/* the state is compared once the specification's eager local steps that follow have been consumed */
			have_pending = !diverged && exp[0] != '*';
			if (have_pending) {
				snprintf (pend_exp, sizeof pend_exp, "%s", exp);
				snprintf (pend_label, sizeof pend_label, "%s", label);
				pend_actor = actor; pend_step = stepno;
			}
		} else if (line[0] == 'E' && in_tour) {
			in_flush_at_end = 1;
			FLUSH_PENDING ();
			in_flush_at_end = 0;
			in_tour = 0;
			/* a schedule recorded from a free-running exploration (labels "*") ends the way that exploration did: run everything to completion */
			h->finish (diverged || force_finish || (free_sched && stepno > 0));
			if (diverged) st->diverged_tours++; else st->matched_tours++;
			if (nontrivial_flag) st->nontrivial++;
			if (rt_first_violation ()) {
				const struct rt_viol *v = rt_first_violation ();
				char path[512] = "-", tmsg[600];
				line[strcspn (line, "\n")] = 0;
				/* ghost taints of the specification's final state (known-finding windows), for KNOWN_FINDINGS matching */
				if (strlen (line) > 2 && !diverged) snprintf (tmsg, sizeof tmsg, "%s [spec taints: %s]", v->msg, line + 2);
				else snprintf (tmsg, sizeof tmsg, "%s", v->msg);
				st->violations++;
				if (viol_dir && rt_should_save (v->oracle)) save_tour (&cur, viol_dir, prop, st->violations, path, sizeof path);
				if (!st->first_violation[0]) {
					snprintf (st->first_violation, sizeof st->first_violation, "%s|%s|thread %d|step %ld|%s|%s", v->oracle, v->fn, v->tid, v->step, path, tmsg);
					st->first_violation_tour = tour_id;
				}
				printf ("VIOL %s|%s|thread %d|step %ld|%s|%s\n", v->oracle, v->fn, v->tid, v->step, path, tmsg);
			}
		}
	}
	free (line);
	clear (&cur);
	return 0;
}

/* Continue one saved prefix with `runs` random schedules.  The prefix is replayed without comparison (labels only choose the
   thread and, through pre(), the value a client step delivers); then uniformly random choices among the enabled threads, the
   clock advancing when nobody can run; finally h->finish (1).  Returns the number of runs in which an oracle fired. */
long rp_explore_from (FILE *sched, const struct rp_harness *h, long runs, unsigned seed, const char *viol_dir, const char *prop, int (*done) (void), long max_steps) {
	struct lines pre = { 0, 0, 0 };
	char *line = NULL; size_t cap = 0;
	char init[4096] = "";
	long r, viols = 0, steps_total = 0;
	unsigned long long rng;
	int prio[RT_MAXT], pct_depth = 0, nchg = 0; long chg[4], last_n = 0;
	while (getline (&line, &cap, sched) > 0) {
		if (line[0] == 'T' && !init[0]) { char *q = line + 1; while (*q == ' ') q++; strtol (q, &q, 10); while (*q == ' ') q++; q[strcspn (q, "\n")] = 0; snprintf (init, sizeof init, "%s", q); }
		else if (line[0] == 'S') push (&pre, line);
		else if (line[0] == 'E') break;
	}
	free (line);
	for (r = 0; r < runs && viols < 3 && rt_watchdog_hits < 3; r++) {      /* three failing continuations are enough (a livelock makes every run slow) */
		char *out = NULL; size_t ol = 0; FILE *of = open_memstream (&out, &ol);
		int i; long n = 0;
		char why[256];
		rng = 88172645463325252ULL ^ ((unsigned long long) seed * 0x9E3779B97F4A7C15ULL) ^ ((unsigned long long) r * 0xD1B54A32D192ED03ULL);
		rt_reset ();
		h->setup (init);
		fprintf (of, "T %ld %s%s%s\n", r + 1, strstr (init, "cont=1") ? "" : "cont=1 ", (rt_plain_steps && !strstr (init, "plain=1")) ? "plain=1 " : "", init);
		rp_diverged = 1; rp_in_prefix = 1;
		for (i = 0; i < pre.n && !rt_first_violation (); i++) {
			int actor = 0, off = 0, choice; char label[64];
			if (sscanf (pre.v[i], "S %d %63s %n", &actor, label, &off) < 2) continue;
			if (actor == 0) { char lb[64]; snprintf (lb, sizeof lb, "%s", label); h->env (lb, ""); fprintf (of, "S 0 %s *\n", label); continue; }
			if (strlen (label) > 2 && strcmp (label + strlen (label) - 2, "_l") == 0) continue;
			if (actor - 1 >= rt_nthreads () || !rt_enabled (actor - 1)) break;
			choice = h->pre (actor, label, "", "", why, sizeof why);
			rt_grant_choice (actor - 1, choice < 0 ? 0 : choice);
			if (h->post) h->post (actor, label);
			fprintf (of, "S %d %s *\n", actor, label);
		}
		rp_in_prefix = 0;
		/* every fourth continuation is uniformly random; the others follow a priority schedule with 1-3 priority change points (a thread
		   keeps running until it blocks or is demoted: long solo stretches, which uniform choices practically never produce); a thread
		   about to spin-delay yields */
		{ int q; pct_depth = (int) (r % 4); nchg = 0;
		  for (q = 0; q < RT_MAXT; q++) { rng ^= rng << 13; rng ^= rng >> 7; rng ^= rng << 17; prio[q] = (int) ((rng >> 11) % 1000) + 10; }
		  for (q = 0; q < pct_depth; q++) { rng ^= rng << 13; rng ^= rng >> 7; rng ^= rng << 17; chg[nchg++] = (long) ((rng >> 11) % (unsigned long) (last_n > 20 ? last_n + last_n / 4 : 300)); } }      /* change points spread over the length the previous continuation had */
		while (!rt_first_violation () && n < max_steps && !(done ? done () : rt_all_done ())) {
			int cand[RT_MAXT], nc = 0, t, nt = rt_nthreads ();
			for (i = 0; i < nt; i++) if (rt_enabled (i)) cand[nc++] = i;
			rng ^= rng << 13; rng ^= rng >> 7; rng ^= rng << 17;
			if (nc == 0 || (rng >> 11) % 24 == 0) {
				if (rt_timed_waiter_pending ()) { h->env ("Tick", ""); fprintf (of, "S 0 Tick *\n"); n++; continue; }
				if (nc == 0) break;
			}
			if (pct_depth == 0) t = cand[(rng >> 17) % (unsigned) nc];
			else {
				int best = -1, bp = 0, q;
				for (i = 0; i < nc; i++) {
					int pr = prio[cand[i]] - ((rt_pending (cand[i])->kind == OP_DELAY) ? 2000 : 0);
					if (best < 0 || pr > bp) { best = cand[i]; bp = pr; }
				}
				t = best;
				for (q = 0; q < nchg; q++) if (chg[q] == n) prio[t] = -(q + 1);
			}
			rt_grant (t);
			if (h->post) h->post (t + 1, "*");
			fprintf (of, "S %d * *\n", t + 1);
			n++;
		}
		steps_total += n; last_n = n;
		if (!rt_first_violation ()) h->finish (1);
		fclose (of);
		if (rt_first_violation ()) {
			const struct rt_viol *v = rt_first_violation ();
			char path[512] = "-";
			viols++;
			if (viol_dir && rt_should_save (v->oracle)) {
				FILE *o;
				snprintf (path, sizeof path, "%s/%s_cont%d_%u_%ld.sched", viol_dir, prop, (int) getpid (), seed, viols);
				o = fopen (path, "w");
				if (o) { fputs (out, o); fputs ("E\n", o); fclose (o); }
			}
			printf ("VIOL %s|%s|thread %d|step %ld|%s|%s\n", v->oracle, v->fn, v->tid, v->step, path, v->msg);
		}
		free (out);
	}
	printf ("STATS tours=%ld steps=%ld matched=%ld diverged=0 mismatches=0 violations=%ld nontrivial=%ld\n", r, steps_total, r - viols, viols, r);
	clear (&pre);
	return viols;
}

/* Systematic exploration with a bound on preemptions (in the manner of CHESS): after the saved prefix, one thread runs until it blocks or
   finishes, then the next runnable one; a schedule is the starting thread plus at most `bound` preemptions (step index, thread switched to).
   All schedules with that many preemptions are enumerated (positions up to the length of the longest run seen), up to max_runs.  With
   VERIF_PLAIN the steps include plain accesses to shared memory, so a two-instruction check-then-set window is one of the enumerated points
   rather than a matter of luck.  Returns the number of runs in which an oracle fired. */
long rp_explore_pb (FILE *sched, const struct rp_harness *h, int bound, long max_runs, const char *viol_dir, const char *prop, int (*done) (void), long max_steps) {
	struct lines pre = { 0, 0, 0 };
	char *line = NULL; size_t cap = 0;
	char init[4096] = "";
	long runs = 0, viols = 0, steps_total = 0, L = 1;
	long pos[4]; int thr[4]; int k, start, nt = 0, npre;
	while (getline (&line, &cap, sched) > 0) {
		if (line[0] == 'T' && !init[0]) { char *q = line + 1; while (*q == ' ') q++; strtol (q, &q, 10); while (*q == ' ') q++; q[strcspn (q, "\n")] = 0; snprintf (init, sizeof init, "%s", q); }
		else if (line[0] == 'S') push (&pre, line);
		else if (line[0] == 'E') break;
	}
	free (line);
	if (bound > 3) bound = 3;
	for (npre = 0; npre <= bound && runs < max_runs && viols < 3; npre++) {
		/* odometer over (start thread, positions pos[0] < pos[1] < ..., threads thr[]) */
		for (k = 0; k < npre; k++) { pos[k] = k; thr[k] = 0; }
		start = 0;
		for (;;) {
			char *out = NULL; size_t ol = 0; FILE *of = open_memstream (&out, &ol);
			int i, cur, usedp = 0; long n = 0; char why[256];
			rt_reset ();
			h->setup (init);
			nt = rt_nthreads ();
			fprintf (of, "T %ld %s%s%s\n", runs + 1, strstr (init, "cont=1") ? "" : "cont=1 ", (rt_plain_steps && !strstr (init, "plain=1")) ? "plain=1 " : "", init);
			rp_diverged = 1; rp_in_prefix = 1;
			for (i = 0; i < pre.n && !rt_first_violation (); i++) {
				int actor = 0, off = 0, choice; char label[64];
				if (sscanf (pre.v[i], "S %d %63s %n", &actor, label, &off) < 2) continue;
				if (actor == 0) { char lb[64]; snprintf (lb, sizeof lb, "%s", label); h->env (lb, ""); fprintf (of, "S 0 %s *\n", label); continue; }
				if (strlen (label) > 2 && strcmp (label + strlen (label) - 2, "_l") == 0) continue;
				if (actor - 1 >= rt_nthreads () || !rt_enabled (actor - 1)) break;
				choice = h->pre (actor, label, "", "", why, sizeof why);
				rt_grant_choice (actor - 1, choice < 0 ? 0 : choice);
				if (h->post) h->post (actor, label);
				fprintf (of, "S %d %s *\n", actor, label);
			}
			rp_in_prefix = 0;
			cur = start % (nt > 0 ? nt : 1);
			while (!rt_first_violation () && n < max_steps && !(done ? done () : rt_all_done ())) {
				if (usedp < npre && pos[usedp] == n) { cur = (cur + 1 + thr[usedp]) % nt; usedp++; }       /* a preemption switches to another thread */
				if (!rt_enabled (cur)) {
					int j, found = -1;
					for (j = 1; j <= nt; j++) if (rt_enabled ((cur + j) % nt)) { found = (cur + j) % nt; break; }
					if (found < 0) {
						if (rt_timed_waiter_pending ()) { h->env ("Tick", ""); fprintf (of, "S 0 Tick *\n"); n++; continue; }
						break;
					}
					cur = found;
				}
				{ int was_delay = rt_pending (cur)->kind == OP_DELAY;
				  rt_grant (cur);
				  if (h->post) h->post (cur + 1, "*");
				  fprintf (of, "S %d * *\n", cur + 1);
				  n++;
				  if (was_delay) { int j; for (j = 1; j < nt; j++) if (rt_enabled ((cur + j) % nt)) { cur = (cur + j) % nt; break; } }     /* a spin delay yields */
				}
			}
			if (n > L && n < max_steps) L = n;
			steps_total += n; runs++;
			if (!rt_first_violation ()) h->finish (1);
			fclose (of);
			if (rt_first_violation ()) {
				const struct rt_viol *v = rt_first_violation ();
				char path[512] = "-";
				viols++;
				if (viol_dir && rt_should_save (v->oracle)) {
					FILE *o;
					snprintf (path, sizeof path, "%s/%s_pb%d_%ld.sched", viol_dir, prop, (int) getpid (), viols);
					o = fopen (path, "w");
					if (o) { fputs (out, o); fputs ("E\n", o); fclose (o); }
				}
				printf ("VIOL %s|%s|thread %d|step %ld|%s|%s\n", v->oracle, v->fn, v->tid, v->step, path, v->msg);
			}
			free (out);
			if (runs >= max_runs || viols >= 3) break;
			/* next schedule: threads, then positions, then the starting thread */
			for (k = npre - 1; k >= 0; k--) { if (++thr[k] < nt - 1) break; thr[k] = 0; }
			if (k >= 0) continue;
			for (k = npre - 1; k >= 0; k--) {
				if (pos[k] + 1 < L - (npre - 1 - k)) { int q; pos[k]++; for (q = k + 1; q < npre; q++) pos[q] = pos[q - 1] + 1; break; }
			}
			if (k >= 0) continue;
			for (k = 0; k < npre; k++) pos[k] = k;
			if (++start >= nt) break;
		}
	}
	printf ("STATS tours=%ld steps=%ld matched=%ld diverged=0 mismatches=0 violations=%ld nontrivial=%ld\n", runs, steps_total, runs - viols, viols, runs);
	clear (&pre);
	return viols;
}

void rp_print_stats (const struct rp_stats *st, FILE *out) {
	rt_report_soft (out);
	fprintf (out, "STATS tours=%ld steps=%ld matched=%ld diverged=%ld mismatches=%ld violations=%ld nontrivial=%ld\n",
		 st->tours, st->steps, st->matched_tours, st->diverged_tours, st->mismatches, st->violations, st->nontrivial);
	if (st->first_mismatch[0]) fprintf (out, "MISMATCH %s\n", st->first_mismatch);
}
