#!/usr/bin/env python3
"""Binding self-test (DESIGN 3.4): a recorded execution of the real code is accepted by MuTrace.tla; the same trace with
one logged word corrupted, or with one event dropped, is rejected; a schedule whose expected state was tampered with makes
the lock-step replay report a divergence.  Run by setup.sh."""
import os, sys, json, subprocess, shutil
HERE = os.path.dirname(os.path.dirname(os.path.abspath(__file__)))
sys.path.insert(0, os.path.join(HERE, "checks")); sys.path.insert(0, os.path.join(HERE, "tools"))
from mulib import *
import muconfigs


def validate(tr, name, conf):
    tla, cfg = muconf.write_mc(MC, name, conf, consts(), ["TraceInv"], spec="TraceSpec", export=False, base="MuTrace",
                               extra_cfg="CONSTRAINT Progress\nPOSTCONDITION Accepted\n")
    info = tlc_plain(tla, cfg, workers=1, cwd=MC, env=dict(os.environ, TRACE=tr))
    return info["ok"]


def main():
    exe = build("h_mu")
    prepare_spec()
    shutil.copy(os.path.join(SPEC, "MuTrace.tla"), os.path.join(MC, "MuTrace.tla"))
    os.makedirs(os.path.join(WORK, "tlc"), exist_ok=True)
    conf = dict(muconfigs.FAM["cv_timed"][0]); conf["DbgFixed"] = detect_dbgfixed(exe); conf["CvFix"] = detect_cvfix(exe)
    tr = os.path.join(WORK, "tlc", "self.ndjson")
    run_harness_env(exe, ["random", "20", "3", muconf.init_line(conf), REPLAYS, tr], dict(os.environ))
    lines = open(tr).read().splitlines()
    ok1 = validate(tr, "self_ok", conf)
    # corrupt one logged mutex word
    k = next(i for i, l in enumerate(lines) if '"k":"cas"' in l and i > len(lines) // 2)
    d = json.loads(lines[k]); d["w"] = d["w"] ^ 4
    bad = lines[:k] + [json.dumps(d)] + lines[k + 1:]
    open(tr, "w").write("\n".join(bad) + "\n")
    ok2 = validate(tr, "self_bad1", conf)
    # drop one event
    open(tr, "w").write("\n".join(lines[:k] + lines[k + 1:]) + "\n")
    ok3 = validate(tr, "self_bad2", conf)
    print("selftest: recorded trace accepted=%s, corrupted word accepted=%s, dropped event accepted=%s" % (ok1, ok2, ok3))
    if not ok1 or ok2 or ok3:
        print("selftest FAILED: the trace specification does not bind")
        return 1
    return note_selftest()


def note_selftest():
    """the same for the L2 layer: NoteTrace.tla accepts a recorded execution of note.c / wait.c over the ideal lock, and rejects it with one
    logged 'notified' bit flipped or one event dropped"""
    import l2lib, notelib
    exe = build("h_l2")
    os.makedirs(l2lib.MC, exist_ok=True)
    shutil.copy(os.path.join(SPEC, "NoteTrace.tla"), os.path.join(l2lib.MC, "NoteTrace.tla"))
    c = notelib.CONF["n_chain"][2]
    conf = dict(notelib.note_conf(c), _c=c)
    tr = os.path.join(WORK, "tlc", "selfn.ndjson")
    run_harness_env(exe, ["random", "10", "3", l2lib.init_line("note", conf), REPLAYS, tr], dict(os.environ, VERIF_PROP="C08"))
    lines = open(tr).read().splitlines()

    def val(name):
        tla, cfg = l2lib.write_mc("Note", name, conf, notelib.consts_of(c), export=False)
        t1 = open(tla).read().replace("EXTENDS Note\n", "EXTENDS NoteTrace\n")
        open(tla, "w").write(t1)
        t2 = open(cfg).read().replace("SPECIFICATION SpecU", "SPECIFICATION TraceSpec") + "INVARIANT TraceInv\nCONSTRAINT Progress\nPOSTCONDITION Accepted\n"
        open(cfg, "w").write(t2)
        return tlc_plain(tla, cfg, workers=1, cwd=l2lib.MC, env=dict(os.environ, TRACE=tr))["ok"]
    ok1 = val("selfn_ok")
    k = next(i for i, l in enumerate(lines) if '"k":"st"' in l and '"nm":[1' in l)      # the store that notifies note 1
    d = json.loads(lines[k]); d["nm"][0] = 0
    open(tr, "w").write("\n".join(lines[:k] + [json.dumps(d)] + lines[k + 1:]) + "\n")
    ok2 = val("selfn_bad1")
    open(tr, "w").write("\n".join(lines[:k] + lines[k + 1:]) + "\n")
    ok3 = val("selfn_bad2")
    print("selftest (notes): recorded trace accepted=%s, corrupted bit accepted=%s, dropped event accepted=%s" % (ok1, ok2, ok3))
    if not ok1 or ok2 or ok3:
        print("selftest FAILED: NoteTrace.tla does not bind")
        return 1
    return 0


if __name__ == "__main__":
    sys.exit(main())
