#!/usr/bin/env python3
"""labelcov.py: which labels (= shared operations) of each PlusCal specification were taken by the lock-step replays recorded in
/verif/evidence/*.json (coverage.labels_replayed), and which were not.  A label never replayed is code no configuration reaches."""
import json, os, re, sys, glob
VERIF = os.path.dirname(os.path.dirname(os.path.abspath(__file__)))
seen = {}
for f in glob.glob(os.path.join(os.environ.get("VERIF_EVID", os.path.join(VERIF, "evidence")), "C*.json")):
    if f.endswith(".replay.json"):
        continue
    d = json.load(open(f))
    for spec, labs in d.get("coverage", {}).get("labels_replayed", {}).items():
        seen.setdefault(spec, set()).update(labs)
for spec in sorted(seen):
    path = os.path.join(VERIF, "spec", spec + ".tla")
    if not os.path.exists(path):
        continue
    src = open(path).read()
    alg = src[:src.index("BEGIN TRANSLATION")] if "BEGIN TRANSLATION" in src else src
    labels = set(re.findall(r"^\s*([a-z][a-z0-9]*_[a-z0-9_]+|c0|cx|d0):", alg, re.M))
    shared = {l for l in labels if not l.endswith("_l")}
    missing = sorted(shared - seen[spec])
    print("%s: %d labels for shared operations, %d replayed, not replayed: %s" % (spec, len(shared), len(shared & seen[spec]), " ".join(missing) or "-"))
