#!/usr/bin/env python3
"""Re-translate a PlusCal module and regenerate the derived lines of its hand-written tail:
LocalLabels (labels ending in _l), the UNCHANGED list of Tick, MuLabels.  Usage: mkspec.py spec/Mu.tla"""
import re, subprocess, sys
path = sys.argv[1]
s = open(path).read()
a = s.index("\\* BEGIN TRANSLATION"); b = s.index("\\* END TRANSLATION")
s = s[:a] + "\\* BEGIN TRANSLATION\n" + s[b:]
open(path, "w").write(s)
r = subprocess.run(["pcal", "-nocfg", path], capture_output=True, text=True)
if "Translation completed" not in r.stdout:
    print(r.stdout[-2000:]); sys.exit(1)
t = open(path).read()
alg = t[:t.index("\\* BEGIN TRANSLATION")]
labels = sorted(set(re.findall(r"^\s+([a-z]+[0-9]*_?[a-z0-9_]*):", alg, re.M)))
local = [l for l in labels if l.endswith("_l")]
m = re.search(r"vars == << (.*?) >>", t, re.S)
vs = [v.strip() for v in m.group(1).replace("\n", " ").split(",")]
tickvar = "cvx" if "cvx' = [u" in t else "now"
unch = ", ".join(v for v in vs if v != tickvar)
t = re.sub(r"LocalLabels == \{.*?\}", lambda _: "LocalLabels == {%s}" % ", ".join('"%s"' % l for l in local), t, count=1, flags=re.S)
t = re.sub(r"(Tick ==.*?UNCHANGED <<).*?(>>)", lambda mm: mm.group(1) + unch + mm.group(2), t, count=1, flags=re.S)
if "MuLabels ==" in t:
    # labels whose step reads or writes the mutex itself (word or waiter queue)
    parts = re.split(r"^\s+([a-z]+[0-9]*_?[a-z0-9_]*):", alg, flags=re.M)
    mul = []
    for i in range(1, len(parts) - 1, 2):
        lab, body = parts[i], parts[i + 1]
        body = re.sub(r"\\\*.*", "", body)
        body = re.split(r"\n\s*procedure |\n\s*process ", body)[0]
        if re.search(r"\b(word|queue)\b", body):
            mul.append(lab)
    t = re.sub(r"MuLabels == \{.*?\}", lambda _: "MuLabels == {%s}" % ", ".join('"%s"' % l for l in sorted(set(mul))), t, count=1, flags=re.S)
open(path, "w").write(t)
r = subprocess.run(["tla-sany", path], capture_output=True, text=True)
errs = [l for l in r.stdout.splitlines() if "rror" in l or "Unknown" in l]
print("labels:", len(labels), "local:", len(local), "sany:", "OK" if not errs else errs[:5])
sys.exit(1 if errs else 0)
