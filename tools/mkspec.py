#!/usr/bin/env python3
"""Re-translate a PlusCal module and regenerate the derived lines of its hand-written tail:
LocalLabels (labels ending in _l), the UNCHANGED list of Tick, MuLabels.  Usage: mkspec.py spec/Mu.tla"""
import re, subprocess, sys
path = sys.argv[1]
s = open(path).read()
a = s.index("\\* BEGIN TRANSLATION"); b = s.index("\\* END TRANSLATION")
s = s[:a] + "\\* BEGIN TRANSLATION\n" + s[b:]
open(path, "w").write(s)
r = subprocess.run(["pcal", "-nocfg", path], capture_output=True, text=True)
if "Translation completed" not in r.stdout:
    print(r.stdout[-2000:]); sys.exit(1)
t = open(path).read()
alg = t[:t.index("\\* BEGIN TRANSLATION")]
labels = sorted(set(re.findall(r"^\s+([a-z]+[0-9]*_?[a-z0-9_]*):", alg, re.M)))
local = [l for l in labels if l.endswith("_l")]
m = re.search(r"vars == << (.*?) >>", t, re.S)
vs = [v.strip() for v in m.group(1).replace("\n", " ").split(",")]
tickvar = "cvx" if "cvx' = [u" in t else "now"
unch = ", ".join(v for v in vs if v != tickvar)
t = re.sub(r"LocalLabels == \{.*?\}", lambda _: "LocalLabels == {%s}" % ", ".join('"%s"' % l for l in local), t, count=1, flags=re.S)
t = re.sub(r"(Tick ==.*?UNCHANGED <<).*?(>>)", lambda mm: mm.group(1) + unch + mm.group(2), t, count=1, flags=re.S)
if "MuLabels ==" in t:
    # labels whose step reads or writes the mutex itself (word or waiter queue)
    parts = re.split(r"^\s+([a-z]+[0-9]*_?[a-z0-9_]*):", alg, flags=re.M)
    mul = []
    for i in range(1, len(parts) - 1, 2):
        lab, body = parts[i], parts[i + 1]
        body = re.sub(r"\\\*.*", "", body)
        body = re.split(r"\n\s*procedure |\n\s*process ", body)[0]
        if re.search(r"\b(word|queue)\b", body):
            mul.append(lab)
    t = re.sub(r"MuLabels == \{.*?\}", lambda _: "MuLabels == {%s}" % ", ".join('"%s"' % l for l in sorted(set(mul))), t, count=1, flags=re.S)
# generated block: label -> kind of shared operation, and the reset action of the trace specification (Init with primes)
if "\\* BEGIN GENERATED" in t:
    def kind(l):
        if l in ("c0", "d0", "f0", "f1"): return "c"
        for suf, k in (("_ld", "ld"), ("_cas", "cas"), ("_st", "st"), ("_pd", "pd"), ("_p", "p"), ("_v", "v"), ("_d", "d"), ("_r", "region"), ("_sw", "region"), ("_l", "local"), ("_lk", "lock"), ("_ul", "unlock")):
            if l.endswith(suf): return k
        return "none"
    km = "KindMap == [x \\in {%s} |-> CASE %s]" % (", ".join('"%s"' % l for l in labels + ["Done"]), " [] ".join('x = "%s" -> "%s"' % (l, kind(l)) for l in labels + ["Done"]))
    mi = re.search(r"^Init == (.*?)\n\n", t, re.S | re.M)
    body = mi.group(1)
    body = re.sub(r"^(\s*/\\ )(\w+) = ", lambda mm: mm.group(1) + mm.group(2) + "' = ", body, flags=re.M)
    gen = "\\* BEGIN GENERATED (tools/mkspec.py)\n" + km + "\nResetAll == " + body.strip() + "\n\\* END GENERATED"
    t = re.sub(r"\\\* BEGIN GENERATED.*?\\\* END GENERATED", lambda _: gen, t, count=1, flags=re.S)
open(path, "w").write(t)
r = subprocess.run(["tla-sany", path], capture_output=True, text=True)
errs = [l for l in r.stdout.splitlines() if "rror" in l or "Unknown" in l]
print("labels:", len(labels), "local:", len(local), "sany:", "OK" if not errs else errs[:5])
sys.exit(1 if errs else 0)
