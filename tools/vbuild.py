#!/usr/bin/env python3
"""Build the code under test from /repo's working tree with the compiler-instrumentation seam
(gcc -fsanitize=thread, linked against /verif/rt instead of libtsan) and link a harness.
Usage: vbuild.py <harness> [--flavour c|cpp|c11] [--out DIR] [--repo DIR] [--binsem]"""
import argparse, os, subprocess, sys, hashlib, concurrent.futures as cf

VERIF = os.path.dirname(os.path.dirname(os.path.abspath(__file__)))

NSYNC_CORE = ["internal/common.c", "internal/counter.c", "internal/cv.c", "internal/debug.c", "internal/dll.c",
              "internal/mu.c", "internal/mu_wait.c", "internal/note.c", "internal/once.c", "internal/sem_wait.c",
              "internal/time_internal.c", "internal/wait.c"]
HARNESS = {
    # harness: (nsync sources, extra rt sources, extra wraps)
    "h_sem": (["platform/linux/src/nsync_semaphore_futex.c", "platform/posix/src/time_rep.c"], [], []),
    "h_semm": (["platform/posix/src/nsync_semaphore_mutex.c", "platform/posix/src/time_rep.c"], ["ideal_pthread.c"],
               ["pthread_mutex_init", "pthread_mutex_lock", "pthread_mutex_unlock", "pthread_cond_init", "pthread_cond_wait",
                "pthread_cond_timedwait", "pthread_cond_broadcast", "pthread_cond_signal"]),
    "h_dll": (["internal/dll.c"], [], []),
    "h_pool": (["internal/common.c", "internal/dll.c", "platform/linux/src/nsync_semaphore_futex.c", "platform/posix/src/time_rep.c"], [], []),
    "h_mu": (NSYNC_CORE + ["platform/linux/src/nsync_semaphore_futex.c", "platform/posix/src/time_rep.c"], [], []),
    "h_mub": (NSYNC_CORE + ["platform/posix/src/time_rep.c"], ["binsem.c"], [], "h_mu"),
    "h_l2": ([f for f in NSYNC_CORE if f not in ("internal/mu.c", "internal/mu_wait.c", "internal/cv.c", "internal/debug.c")]
             + ["platform/linux/src/nsync_semaphore_futex.c", "platform/posix/src/time_rep.c"], ["ideal_mu.c"], []),
    "h_l2r": (NSYNC_CORE + ["platform/linux/src/nsync_semaphore_futex.c", "platform/posix/src/time_rep.c"], [], [], "h_l2"),
}
WRAPS = ["syscall", "clock_gettime", "nanosleep", "malloc", "free",
         "nsync_mu_semaphore_p", "nsync_mu_semaphore_p_with_deadline", "nsync_mu_semaphore_v",
         "nsync_sem_wait_with_cancel_", "nsync_waiter_new_", "nsync_waiter_free_"]


def run(cmd, **kw):
    r = subprocess.run(cmd, stdout=subprocess.PIPE, stderr=subprocess.STDOUT, text=True, **kw)
    if r.returncode != 0:
        sys.stderr.write("BUILD FAILED: %s\n%s\n" % (" ".join(cmd), r.stdout))
        sys.exit(2)
    return r.stdout


def includes(repo, flavour):
    p = lambda d: "-I" + os.path.join(repo, d)
    if flavour == "c":
        return [p("platform/gcc_no_tls"), p("platform/linux"), p("platform/gcc"), p("platform/posix"),
                p("platform/x86_64"), p("public"), p("internal")]
    if flavour == "ctls":
        # the thread-local flavour of internal/common.c (HAVE_THREAD_LOCAL = 1, as in the default builds): compiler.h is the tree's platform/gcc
        # one with THREAD_LOCAL made an ordinary static, which the runtime saves and restores per fiber (rt_fiber_word); see _do_build
        return [p("platform/linux"), p("platform/gcc"), p("platform/posix"), p("platform/x86_64"), p("public"), p("internal")]
    if flavour == "c11":
        return ["-DNSYNC_ATOMIC_C11", p("platform/gcc_no_tls"), p("platform/c11"), p("platform/linux"), p("platform/gcc"),
                p("platform/posix"), p("platform/x86_64"), p("public"), p("internal")]
    if flavour == "cpp":
        return ["-DNSYNC_ATOMIC_CPP11", "-DNSYNC_USE_CPP11_TIMEPOINT", p("platform/gcc_no_tls"), p("platform/c++11.futex"),
                p("platform/c++11"), p("platform/linux"), p("platform/gcc"), p("platform/posix"),
                p("platform/x86_64"), p("public"), p("internal")]
    raise SystemExit("unknown flavour " + flavour)


def build(harness, flavour="c", out=None, repo="/repo", extra_defs=(), harness_src=None, quiet=True):
    """content-addressed: the output directory is named after a hash of every input (sources of the code under
    test, their headers, the runtime, flags), so concurrent checks share a finished build and an edit to /repo
    always gives a fresh one."""
    import fcntl, glob, shutil, time
    srcs, rtextra, wraps = HARNESS[harness][:3]
    if len(HARNESS[harness]) > 3 and not harness_src:
        harness_src = HARNESS[harness][3]
    inc = includes(repo, flavour)
    cc = ["g++", "-std=c++11", "-x", "c++", "-fpermissive"] if flavour == "cpp" else ["gcc"]
    uut_flags = ["-O1", "-fno-inline", "-g", "-fsanitize=thread", "-fno-pic", "-fno-pie", "-w"] + list(extra_defs)
    rt_srcs = ["rt.c", "replay.c"] + rtextra + [(harness_src or harness) + ".c"]
    h = hashlib.sha256()
    h.update(repr((harness, flavour, uut_flags, WRAPS, wraps, cc)).encode())
    inputs = [os.path.join(repo, s) for s in srcs] + [os.path.join(VERIF, "rt", s) for s in rt_srcs]
    for d in ("internal", "public", "platform/gcc_no_tls", "platform/linux", "platform/gcc", "platform/gcc_new", "platform/posix", "platform/x86_64",
              "platform/c11", "platform/c++11", "platform/c++11.futex"):
        inputs += sorted(glob.glob(os.path.join(repo, d, "*.h")))
    inputs += sorted(glob.glob(os.path.join(VERIF, "rt", "*.h")))
    for f in inputs:
        try:
            h.update(f.encode()); h.update(open(f, "rb").read())
        except OSError:
            h.update(b"missing")
    tag = h.hexdigest()[:12]
    base = os.path.join(VERIF, "build")
    os.makedirs(base, exist_ok=True)
    out = out or os.path.join(base, "%s_%s_%s" % (harness, flavour, tag))
    exe = os.path.join(out, harness)
    lock = open(os.path.join(base, ".lock_%s_%s" % (harness, flavour)), "w")
    fcntl.flock(lock, fcntl.LOCK_EX)
    try:
        if os.path.exists(exe) and os.path.exists(os.path.join(out, ".done")):
            os.utime(os.path.join(out, ".done"))
            return exe
        # drop stale builds of the same harness
        # drop builds of this harness that nobody has used for six hours (other trees may be under test concurrently)
        for d in glob.glob(os.path.join(base, "%s_%s_*" % (harness, flavour))):
            try:
                if time.time() - os.path.getmtime(os.path.join(d, ".done")) > 6 * 3600:
                    shutil.rmtree(d, ignore_errors=True)
            except OSError:
                pass
        os.makedirs(out, exist_ok=True)
        _do_build(harness, flavour, out, repo, srcs, rt_srcs, inc, cc, uut_flags, wraps, extra_defs, exe)
        open(os.path.join(out, ".done"), "w").write("ok")
        return exe
    finally:
        fcntl.flock(lock, fcntl.LOCK_UN)
        lock.close()


PRIVATE_STRUCTS = [("internal/counter.c", "nsync_counter_s_", "HAVE_UUT_COUNTER_STRUCT"),
                   ("platform/posix/src/nsync_semaphore_mutex.c", "mutex_cond", "HAVE_UUT_MUTEX_COND_STRUCT")]


def write_uut_structs(repo, out):
    """structs the code under test keeps private but the harnesses project state from: copied textually from the tree being checked,
    so that a change to their layout does not make a harness read the wrong bytes (the harness keeps a fallback definition)"""
    import re
    text = ["/* generated by tools/vbuild.py from the tree under test */\n"]
    for path, name, macro in PRIVATE_STRUCTS:
        try:
            src = open(os.path.join(repo, path)).read()
        except OSError:
            continue
        m = re.search(r"^struct %s \{.*?^\};" % re.escape(name), src, re.S | re.M)
        if m and "#" not in m.group(0):
            text.append("#ifdef WANT_%s\n#define %s 1\n%s\n#endif\n" % (macro[5:], macro, m.group(0)))
    with open(os.path.join(out, "uut_structs.h"), "w") as f:
        f.write("".join(text))


def _do_build(harness, flavour, out, repo, srcs, rt_srcs, inc, cc, uut_flags, wraps, extra_defs, exe):
    jobs = []
    objs = []
    write_uut_structs(repo, out)
    if flavour == "ctls":
        tdir = os.path.join(out, "tlsinc"); os.makedirs(tdir, exist_ok=True)
        txt = open(os.path.join(repo, "platform/gcc/compiler.h")).read()
        import re
        txt2 = re.sub(r"#define\s+THREAD_LOCAL\s+__thread", "#define THREAD_LOCAL /* per fiber: see rt_fiber_word */", txt)
        if txt2 == txt or not re.search(r"#define\s+HAVE_THREAD_LOCAL\s+1", txt):
            sys.stderr.write("BUILD FAILED: platform/gcc/compiler.h does not define THREAD_LOCAL as __thread with HAVE_THREAD_LOCAL 1\n"); sys.exit(2)
        open(os.path.join(tdir, "compiler.h"), "w").write(txt2)
        inc = ["-I" + tdir] + inc
    for s in srcs:
        o = os.path.join(out, "uut_" + os.path.basename(s).replace(".", "_") + ".o")
        jobs.append((cc + uut_flags + inc + ["-c", os.path.join(repo, s), "-o", o], o, True))
        objs.append(o)
    rt_inc = ["-I" + os.path.join(VERIF, "rt"), "-I" + out] + includes(repo, "c")
    for s in rt_srcs:
        o = os.path.join(out, "rt_" + s.replace(".", "_") + ".o")
        jobs.append((["gcc", "-O1", "-g", "-fno-pic", "-fno-pie", "-Wall", "-Wno-unused-parameter"] + rt_inc + list(extra_defs)
                     + ["-c", os.path.join(VERIF, "rt", s), "-o", o], o, False))
        objs.append(o)

    def one(j):
        cmd, o, rename = j
        run(cmd)
        if rename:
            run(["objcopy", "--rename-section", ".data=uutdata,alloc,load,data,contents",
                 "--rename-section", ".bss=uutbss,alloc,load,data,contents", o])
    with cf.ThreadPoolExecutor(16) as ex:
        list(ex.map(one, jobs))
    link = ["g++" if flavour == "cpp" else "gcc", "-no-pie", "-o", exe] + objs + \
           ["-Wl," + ",".join("--wrap=" + w for w in WRAPS + wraps)]
    run(link)


if __name__ == "__main__":
    ap = argparse.ArgumentParser()
    ap.add_argument("harness")
    ap.add_argument("--flavour", default="c")
    ap.add_argument("--out")
    ap.add_argument("--repo", default="/repo")
    a = ap.parse_args()
    print(build(a.harness, a.flavour, a.out, a.repo))
