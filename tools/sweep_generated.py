#!/usr/bin/env python3
"""sweep_generated.py <kind> <focus> <first> <last> <runs>: run the generated programs genprog.gen / gennote with seeds first..last-1 under
<runs> random schedules each on the code in VERIF_REPO (default /repo) and print the programs in which an oracle fired.
kind: mu (h_mu, the build's LONG_WAIT_THRESHOLD) | mu_k2 (h_mu built with LONG_WAIT_THRESHOLD = 2) | note_r (h_l2r, real mu.c) | note_i (h_l2,
ideal lock).  The checks run the same programs for seeds VERIF_SEED*100000 + i; this tool looks at other seeds (defects 6.8-6.10 were found so)."""
import sys, os
HERE = os.path.dirname(os.path.dirname(os.path.abspath(__file__)))
sys.path.insert(0, os.path.join(HERE, "checks")); sys.path.insert(0, os.path.join(HERE, "tools"))
from common import *
import mulib, muconf, genprog, l2lib, notelib

kind, focus, a, b, nruns = sys.argv[1], sys.argv[2], int(sys.argv[3]), int(sys.argv[4]), sys.argv[5]
out = os.environ.get("VERIF_REPLAYS", "/tmp/sweep_replays"); os.makedirs(out, exist_ok=True)
e = dict(os.environ, VERIF_PROP=focus, VERIF_SOFT="O-hb", VERIF_HB="1")
if kind.startswith("mu"):
    exe = build("h_mu", extra_defs=kdefs(2) if kind == "mu_k2" else ())
else:
    hn = "h_l2r" if kind == "note_r" else "h_l2"
    exe = build(hn)
for s in range(a, b):
    if kind.startswith("mu"):
        conf = genprog.gen(s, focus)
        if kind == "mu_k2":
            conf["kthr"] = 2
        init = muconf.init_line(conf)
    else:
        init = l2lib.init_line("note", notelib.note_conf(genprog.gennote(s, focus))).replace(" ", " harness=%s " % hn, 1)
    res = mulib.run_harness_env(exe, ["random", nruns, str(s), init, out], e)
    if res["viols"]:
        print("SEED", s, init)
        for v in res["viols"][:3]:
            print("   ", v)
    print(s, res["stats"], file=sys.stderr)
