#!/usr/bin/env python3
"""benigntest.py run <id> : apply /verif/benign/<id>/patch.diff (a behaviour-preserving change written by an independent sub-agent:
refactoring, correct micro-optimisation, stronger order) to a scratch copy of /repo's HEAD and run the checks named in its
meta.json (quick tier).  Every check must exit 0 with no VIOLATION line: a report here is a false alarm of the machinery.
Writes /verif/benign/<id>/result.json."""
import json, os, subprocess, sys, shutil, time
VERIF = "/verif"


def sh(cmd, **kw):
    return subprocess.run(cmd, shell=isinstance(cmd, str), stdout=subprocess.PIPE, stderr=subprocess.STDOUT, text=True, **kw)


def run(bid, only=None):
    bd = os.path.join(VERIF, "benign", bid)
    meta = json.load(open(os.path.join(bd, "meta.json")))
    scratch = "/tmp/benrepo/%s_%d" % (bid, os.getpid())
    shutil.rmtree(scratch, ignore_errors=True); os.makedirs(scratch)
    sh("git -C /repo archive HEAD | tar -x -C %s" % scratch)
    r = sh(["git", "apply", "--directory=" + scratch, "--unsafe-paths", os.path.join(bd, "patch.diff")], cwd=scratch)
    if r.returncode != 0:
        r = sh("cd %s && patch -p1 < %s" % (scratch, os.path.join(bd, "patch.diff")))
        if r.returncode != 0:
            shutil.rmtree(scratch, ignore_errors=True)
            return {"id": bid, "error": "patch does not apply: " + r.stdout[-300:]}
    out = {"id": bid, "results": {}}
    try:
        out = json.load(open(os.path.join(bd, "result.json")))
    except Exception:
        pass
    out.setdefault("results", {})
    for p in (only or meta["checks"]):
        t0 = time.time()
        env = dict(os.environ, VERIF_REPO=scratch, VERIF_TIER="quick", VERIF_EVID=scratch + "_evid", VERIF_REPLAYS=scratch + "_replays")
        r = sh([os.path.join(VERIF, "check"), p, "--tier", "quick"], env=env, cwd=VERIF)
        lines = [l for l in r.stdout.splitlines() if l.startswith(("VIOLATION", "  what:", "OK ", "TOOL-FAILURE", "KNOWN-FINDING", "note: DIVERGENCE", "Traceback"))]
        out["results"][p] = {"exit": r.returncode, "wall_s": round(time.time() - t0, 1), "lines": lines[:12], "verdict": "quiet" if r.returncode == 0 else "ALARM"}
        ap = os.path.join(bd, "alarm_%s.log" % p)
        if r.returncode != 0:
            open(ap, "w").write(r.stdout[-20000:])
        elif os.path.exists(ap):
            os.unlink(ap)
    for d in (scratch, scratch + "_evid", scratch + "_replays"):
        shutil.rmtree(d, ignore_errors=True)
    json.dump(out, open(os.path.join(bd, "result.json"), "w"), indent=1)
    return out


if __name__ == "__main__":
    o = run(sys.argv[2], sys.argv[3:] or None)
    print(json.dumps(o, indent=1)[:3000])
