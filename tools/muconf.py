#!/usr/bin/env python3
"""Configurations of Mu.tla: client programs, conditions, constants (read from the build under
test) -> MC module + cfg for TLC, and the init line handed to the harness."""
import json, os, subprocess

DEFAULT_CONSTS = None


def op(name, lt=1, c=0, dl=0, cn=False, v=1, x=1, skip=0):
    return dict(op=name, lt=lt, c=c, dl=dl, cn=cn, v=v, x=x, skip=skip)


# shorthand programs
def P(*ops):
    out = []
    for o in ops:
        if isinstance(o, str):
            if o == "L": out.append(op("lock", 1))
            elif o == "R": out.append(op("lock", 2))
            elif o == "U": out.append(op("unlock", 1))
            elif o == "RU": out.append(op("unlock", 2))
            elif o == "UW": out.append(op("unlockww", 1))
            elif o == "T": out += [op("trylock", 1), op("skipunless", skip=1), op("unlock", 1)]
            elif o == "RT": out += [op("trylock", 2), op("skipunless", skip=1), op("unlock", 2)]
            elif o == "S": out.append(op("signal"))
            elif o == "B": out.append(op("broadcast"))
            elif o == "D": out.append(op("debug"))
            elif o == "DC": out.append(op("debugcv"))
            elif o == "N": out.append(op("notify"))
            elif o.startswith("set"): out.append(op("set", v=int(o[3]), x=int(o[4])))
            elif o.startswith("G"): out.append(op("gate", x=int(o[1:])))
            elif o.startswith("get"): out.append(op("get", v=int(o[3])))
            else: raise ValueError(o)
        else:
            out.append(o)
    return out


def tla_val(v):
    if isinstance(v, bool):
        return "TRUE" if v else "FALSE"
    if isinstance(v, int):
        return str(v)
    if isinstance(v, str):
        return '"%s"' % v
    if isinstance(v, dict):
        return "[" + ", ".join("%s |-> %s" % (k, tla_val(x)) for k, x in v.items()) + "]"
    if isinstance(v, (list, tuple)):
        return "<<" + ", ".join(tla_val(x) for x in v) + ">>"
    if isinstance(v, (set, frozenset)):
        return "{" + ", ".join(tla_val(x) for x in sorted(v)) + "}"
    raise ValueError(v)


def write_mc(dirpath, name, conf, consts, invariants, spec="SpecU", export=True, props=(), deadlock=False, base="Mu", extra_defs="", extra_cfg=""):
    """conf: dict(progs=[...], conds=[...], NV, MaxNow, Binary, K, SB, DbgFixed, Loopers)"""
    n = len(conf["progs"])
    conds = conf.get("conds") or [dict(f=1, v=1, eq=False, cell=1)]
    mod = "MC_" + name
    with open(os.path.join(dirpath, mod + ".tla"), "w") as f:
        f.write("---- MODULE %s ----\nEXTENDS %s\n" % (mod, base))
        f.write("MCProg == %s\n" % tla_val(conf["progs"]))
        f.write("MCConds == %s\n" % tla_val(conds))
        f.write("MCLTW == %s\n" % tla_val(consts["LTW"]))
        f.write("MCLTR == %s\n" % tla_val(consts["LTR"]))
        f.write("MCLoopers == %s\n" % tla_val(set(conf.get("Loopers", []))))
        f.write(extra_defs)
        f.write("====\n")
    k = conf.get("K", consts["K"])
    with open(os.path.join(dirpath, mod + ".cfg"), "w") as f:
        f.write("SPECIFICATION %s\nCONSTANTS\n" % spec)
        f.write("  N = %d\n  Prog <- MCProg\n  Conds <- MCConds\n  LTW <- MCLTW\n  LTR <- MCLTR\n  Loopers <- MCLoopers\n" % n)
        f.write("  TaFix = %s\n" % tla_val(bool(conf.get("TaFix", consts.get("TaFix", True)))))
        f.write("  GenFix = %s\n" % tla_val(bool(conf.get("GenFix", consts.get("GenFix", True)))))
        f.write("  TaWoke = %s\n" % tla_val(bool(conf.get("TaWoke", consts.get("TaWoke", True)))))
        f.write("  MwFix = %s\n" % tla_val(bool(conf.get("MwFix", consts.get("MwFix", True)))))
        f.write("  NV = %d\n  MaxNow = %d\n  Binary = %s\n  K = %d\n  SB = %d\n  DbgFixed = %s\n  CvFix = %s\n" % (
            conf.get("NV", 2), conf.get("MaxNow", max([o["dl"] for p in conf["progs"] for o in p] + [0])), tla_val(bool(conf.get("Binary", False))), k, conf.get("SB", k + 4),
            tla_val(bool(conf.get("DbgFixed", consts.get("DbgFixed", True)))), tla_val(bool(conf.get("CvFix", consts.get("CvFix", True))))))
        for c in ("WLOCK", "SPIN", "WAITING", "DESIG", "CONDB", "WRW", "LONGW", "ALLF", "RLOCK", "WZLO", "RZLO"):
            f.write("  %s = %d\n" % (c, consts[c]))
        f.write("  WZHI = %s\n  RZHI = %s\n" % (tla_val(consts["WZHI"]), tla_val(consts["RZHI"])))
        f.write("  defaultInitValue = defaultInitValue\n")
        for i in invariants:
            f.write("INVARIANT %s\n" % i)
        for p in props:
            f.write("PROPERTY %s\n" % p)
        if export:
            f.write("CONSTRAINT InitPrint\nACTION_CONSTRAINT Edge\n")
        f.write("CHECK_DEADLOCK %s\n" % ("TRUE" if deadlock else "FALSE"))
        f.write(extra_cfg)
    return os.path.join(dirpath, mod + ".tla"), os.path.join(dirpath, mod + ".cfg")


def init_line(conf):
    """what the harness needs to set the scenario up (compact text on the T line)"""
    conds = conf.get("conds") or [dict(f=1, v=1, eq=False, cell=1)]
    def o2s(o):
        return "%s.%d.%d.%d.%d.%d.%d.%d" % (o["op"], o["lt"], o["c"], o["dl"], int(o["cn"]), o["v"], o["x"], o["skip"])
    progs = ";".join(",".join(o2s(o) for o in p) if p else "-" for p in conf["progs"])
    cs = ",".join("%d.%d.%d.%d" % (c["f"], c["v"], int(c["eq"]), c["cell"]) for c in conds)
    lo = ",".join(str(x) for x in conf.get("Loopers", [])) or "-"
    kt = "kthr=%d " % conf["kthr"] if conf.get("kthr") else ""      # built with LONG_WAIT_THRESHOLD = kthr (checks/common.py kdefs)
    if conf.get("_flavour"):
        kt = "flavour=%s " % conf["_flavour"] + kt      # which atomic.h flavour the harness was built with
    return kt + "NV=%d Binary=%d Loopers=%s conds=%s progs=%s" % (conf.get("NV", 2), int(bool(conf.get("Binary", False))), lo, cs, progs)


def extract_consts(repo, builddir):
    """compile a tiny program against the tree's headers and common.c to read masks, lock_type tables, threshold"""
    os.makedirs(builddir, exist_ok=True)
    src = os.path.join(os.path.dirname(os.path.abspath(__file__)), "..", "rt", "extract_consts.c")
    exe = os.path.join(builddir, "extract_consts")
    inc = []
    for d in ("platform/gcc_no_tls", "platform/linux", "platform/gcc", "platform/posix", "platform/x86_64", "public", "internal"):
        inc += ["-I", os.path.join(repo, d)]
    r = subprocess.run(["gcc", "-O0", "-w", "-o", exe, src, os.path.join(repo, "internal/common.c")] + inc,
                       stdout=subprocess.PIPE, stderr=subprocess.STDOUT, text=True)
    if r.returncode != 0:
        raise RuntimeError("extract_consts build failed: " + r.stdout)
    out = subprocess.run([exe], stdout=subprocess.PIPE, text=True).stdout
    return json.loads(out)
