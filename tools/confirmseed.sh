#!/bin/sh
# confirmseed.sh <scratch worktree> <seed id>: my own confirmation of a seeded change in the agent's scratch worktree:
# suite with the change, demonstration with and without it; copies the deliverables + confirm.txt to /verif/seeded/<id>/.
wt=$1; id=$2; out=/verif/seeded/$id
mkdir -p $out
cp -r $wt/_seed/A/. $out/
rm -rf $out/_build $out/*.o $out/demo $out/demo_bin 2>/dev/null
cd $wt || exit 2
git checkout -q -- . 
{
echo "== $id $(date -u +%Y-%m-%dT%H:%M:%SZ)"
echo "-- apply"; git apply _seed/A/patch.diff && echo applied
echo "-- build+suite with the change"
(cmake -G Ninja -B _build -S . >/dev/null 2>&1 && cmake --build _build >/dev/null 2>&1 && echo build ok) || echo BUILD FAILED
ctest --test-dir _build -j6 --timeout 900 2>&1 | tail -3
echo "-- demo with the change (expected: fail)"
timeout 300 sh _seed/A/run_demo.sh > /tmp/demo_$id.log 2>&1; echo "demo exit=$?"; tail -4 /tmp/demo_$id.log
echo "-- rebuild without the change"
git checkout -q -- . ; (cmake --build _build >/dev/null 2>&1 && echo build ok)
echo "-- demo without the change (expected: pass)"
timeout 300 sh _seed/A/run_demo.sh > /tmp/demo_$id.log 2>&1; echo "demo exit=$?"; tail -3 /tmp/demo_$id.log
} > $out/confirm.txt 2>&1
rm -f /tmp/demo_$id.log
grep -E "tests passed|demo exit" $out/confirm.txt
