#!/usr/bin/env python3
"""Generated client programs for Mu.tla / h_mu (DESIGN 9.2: "generated programs").

A program is 3-5 threads of client operations on one mutex, one condition variable, one cancellation note and 1-2 data cells,
drawn from the same operation menu the hand-written configurations use.  The generator only emits programs in which EVERY
thread must finish under EVERY schedule of a correct implementation, so that "somebody is still blocked at the end" is a
violation (O-prog) and not a property of the program:

  * exactly one thread (the setter) ends with   L set11 [set21] U B   -- all cells non-zero for good, then a broadcast
    issued after the critical section; nothing resets a cell after that point (flips happen only earlier in that thread);
  * waits that loop on a cell (cvloop, waitnloop, muwait on a condition over a cell) need no deadline: the final state
    satisfies them and the final broadcast / unlock reaches those already asleep;
  * single waits (cvwait, waitn) always carry a finite deadline (there are no spurious wake-ups to rely on);
  * cn=True (a cancel note) is used only if some thread notifies the note unconditionally;
  * cells are written only under the write lock; unlock_without_wakeup only ends critical sections that changed nothing;
  * no gates (a gate that never opens would be an artificial stuck state).
"""
import random
from muconf import P, op

C1 = [dict(f=1, v=1, eq=False, cell=1)]
CS = [dict(f=1, v=1, eq=True, cell=1), dict(f=1, v=2, eq=True, cell=1), dict(f=1, v=3, eq=True, cell=2), dict(f=2, v=1, eq=False, cell=1)]

FOCUS = {
    "C01": dict(lock=4, cv=2, mw=2, wn=1, dbg=0),
    "C02": dict(lock=6, cv=1, mw=1, wn=0, dbg=0),
    "C04": dict(lock=1, cv=5, mw=1, wn=2, dbg=0),
    "C05": dict(lock=1, cv=3, mw=3, wn=1, dbg=0, timed=True),
    "C06": dict(lock=2, cv=1, mw=6, wn=0, dbg=0),
    "C11": dict(lock=1, cv=2, mw=1, wn=5, dbg=0),
    "C13": dict(lock=1, cv=3, mw=1, wn=4, dbg=0),
    "C16": dict(lock=3, cv=2, mw=1, wn=0, dbg=4),
    "C15": dict(lock=1, cv=3, mw=3, wn=3, dbg=0, timed=True),
}


def _lockers(r, k):
    out = []
    for _ in range(k):
        out += r.choice([["L", "U"], ["R", "RU"], ["T"], ["RT"], ["L", "U"], ["R", "RU"]])
    return out


def gen(seed, focus="C02"):
    """returns a configuration dict (progs, NV, conds, MaxNow)"""
    r = random.Random(seed * 7919 + sum(ord(c) for c in focus))
    w = FOCUS.get(focus, FOCUS["C02"])
    nv = r.choice([1, 1, 2]) if w["mw"] >= 2 else 1
    conds = CS if nv == 2 or r.random() < 0.5 else C1
    condids = [i + 1 for i, c in enumerate(conds) if c["cell"] <= nv]
    nthreads = r.choice([3, 4, 4, 5])
    use_note = r.random() < (0.5 if w.get("timed") else 0.3)
    timed_bias = 0.6 if w.get("timed") else 0.35
    progs = []

    def dl():
        return r.choice([1, 2]) if r.random() < timed_bias else 0

    def cn():
        return use_note and r.random() < 0.5

    kinds = [k for k in ("lock", "cv", "mw", "wn", "dbg") for _ in range(w[k])]
    nroles = nthreads - 1 - (1 if use_note else 0)
    for _ in range(max(1, nroles)):
        k = r.choice(kinds)
        if k == "lock":
            progs.append(P(*_lockers(r, r.choice([1, 2, 3]))))
        elif k == "cv":
            mode = r.choice(["L", "L", "R"])
            un = "U" if mode == "L" else "RU"
            form = r.random()
            if form < 0.6:
                wait = op("cvloop", v=r.choice(range(1, nv + 1)), dl=dl(), cn=cn(), x=(9 if mode == "L" and r.random() < 0.15 else 1))
            else:
                wait = op("cvwait", dl=r.choice([1, 2]), cn=cn())
            pre = _lockers(r, 1) if r.random() < 0.3 else []
            post = _lockers(r, 1) if r.random() < 0.3 else []
            progs.append(P(*(pre + [mode, wait, un] + post)))
        elif k == "mw":
            mode = r.choice(["L", "L", "R"])
            un = "U" if mode == "L" else "RU"
            if mode == "L" and r.random() < 0.2:
                un = "UW"
            wait = op("muwait", c=r.choice(condids), dl=dl(), cn=cn())
            pre = _lockers(r, 1) if r.random() < 0.3 else []
            post = _lockers(r, 1) if r.random() < 0.3 else []
            progs.append(P(*(pre + [mode, wait, un] + post)))
        elif k == "wn":
            if r.random() < 0.6:
                wait = op("waitnloop", v=r.choice(range(1, nv + 1)), dl=dl())
            else:
                wait = op("waitn", dl=r.choice([1, 2]), cn=cn())
            progs.append(P("L", wait, "U"))
        else:
            progs.append(P(*r.choice([["D"], ["D", "D"], ["DC"], ["D", "DC"], ["L", "D", "U"], ["R", "DC", "RU"]])))
    if use_note:
        progs.append(P(*(_lockers(r, 1) if r.random() < 0.4 else []) + ["N"] + (_lockers(r, 1) if r.random() < 0.3 else [])))
    # the setter: optional warm-up (plain lockers, a flip of cell 1, stray signals), then the final section
    pre = []
    if r.random() < 0.4:
        pre += _lockers(r, 1)
    if r.random() < 0.35:
        pre += ["L", "set11", "U", "L", "set10", "U"] if r.random() < 0.5 else ["L", "set11", "S", "U", "L", "set10", "U"]
    if r.random() < 0.3:
        pre += [r.choice(["S", "B"])]
    fin = ["L", "set11"] + (["set21"] if nv == 2 else [])
    style = r.random()
    if style < 0.4:
        fin += ["U", "B"]
    elif style < 0.7:
        fin += ["B", "U", "B"] if r.random() < 0.3 else ["S", "U", "B"]
    else:
        fin += ["U", "S", "B"]
    progs.append(P(*(pre + fin)))
    r.shuffle(progs)
    progs = [p[:22] for p in progs]
    maxnow = max([o["dl"] for p in progs for o in p] + [0])
    return dict(progs=progs, NV=nv, conds=conds, MaxNow=maxnow)


if __name__ == "__main__":
    import sys, muconf
    for s in range(int(sys.argv[1]), int(sys.argv[2])):
        print(muconf.init_line(gen(s, sys.argv[3] if len(sys.argv) > 3 else "C02")))


# ------------------------------------------------------------------------------------------------------------------------
# Generated L2 programs for Note.tla / h_l2 (notes, nsync_wait_n over notes and a counter, nsync_sem_wait_with_cancel_).
# Every thread must finish under every schedule of a correct implementation:
#   * the last thread (the finisher) ends by notifying every root, so every note is notified in the end;
#   * waits on the counter (object 9) finish because the programs contain exactly CV0 unconditional add(-1) calls;
#   * client contract of nsync_note_free: a note is freed only by a thread that is its only user, and only while it is a leaf
#     none of whose ancestors is ever freed (frees that race with a notify of a relative that has children are the recorded
#     findings 6.4-6.6; they are explored in lock-step by the hand-written configurations, where the taint says which window a
#     failure belongs to).
def gennote(seed, focus="C08"):
    """returns a notelib-style configuration dict(tree, NN, CV0, MaxNow, progs)"""
    NONE = 9999
    r = random.Random(seed * 104729 + sum(ord(c) for c in focus))
    k = r.choice([1, 2, 2, 3, 3, 4])
    tree = []
    for i in range(1, k + 1):
        par = 0 if i == 1 or r.random() < 0.25 else r.choice(range(1, i))
        dl = r.choice([NONE, NONE, NONE, 1, 2])
        tree.append(dict(id=i, par=par, dl=dl))
    roots = [e["id"] for e in tree if e["par"] == 0]
    nthreads = r.choice([2, 3, 3, 4])
    use_counter = focus in ("C10", "C11", "C13") and r.random() < 0.6 or r.random() < 0.2
    cv0 = r.choice([1, 2]) if use_counter else 0
    nn = k
    progs = [[] for _ in range(nthreads)]
    users = {}        # note -> set of threads that mention it

    def use(t, a):
        users.setdefault(a, set()).add(t)

    def lop(name, a=0, b=0, dl=0, x=0, objs=()):
        return dict(op=name, a=a, b=b, dl=dl, x=x, objs=list(objs))

    def dl():
        return r.choice([NONE, NONE, 1, 2, -1])
    wweights = dict(C08=[4, 2, 2, 3, 1], C09=[2, 1, 1, 3, 4], C11=[2, 6, 1, 1, 1], C13=[2, 4, 3, 1, 1], C05=[1, 1, 6, 1, 1], C10=[1, 5, 1, 1, 0], C15=[4, 4, 3, 1, 1]).get(focus, [2, 2, 2, 2, 1])
    for t in range(nthreads - 1):
        nops = r.choice([1, 2, 2, 3])
        for _ in range(nops):
            kind = r.choices(["wait", "waitn", "swc", "poll", "new"], weights=wweights)[0]
            a = r.choice(range(1, k + 1))
            if kind == "wait":
                progs[t].append(lop("wait", a=a, dl=dl())); use(t, a)
            elif kind == "waitn":
                pool = list(range(1, k + 1)) + ([9] if use_counter else [])
                objs = r.sample(pool, r.choice(range(1, min(len(pool), 3) + 1)))
                if focus in ("C11", "C13") and k >= 4 and use_counter and r.random() < 0.15:
                    objs = [1, 2, 3, 4, 9]                     # the heap bookkeeping path (count = 5)
                for o in objs:
                    if o != 9:
                        use(t, o)
                progs[t].append(lop("waitn", a=int("".join(str(o) for o in objs)), dl=dl(), objs=objs))
            elif kind == "swc":
                a0 = a if r.random() < 0.85 else 0
                d = r.choice([NONE, 1, 2]) if a0 else r.choice([1, 2])
                # nothing posts this thread's semaphore, so the sleep ends only through the note or the deadline
                progs[t].append(lop("swc", a=a0, dl=d))
                if a0:
                    use(t, a0)
            elif kind == "poll":
                progs[t].append(lop("poll", a=a)); use(t, a)
            elif nn < 5 and len(progs[t]) <= 1:
                nn += 1
                par = r.choice([0] + list(range(1, k + 1)))
                progs[t].append(lop("new", a=nn, b=par, dl=r.choice([NONE, NONE, 1, 2, -1])))
                if par:
                    use(t, par)
                use(t, nn)
                progs[t].append(r.choice([lop("poll", a=nn), lop("wait", a=nn, dl=r.choice([1, 2, -1]))]))
                if r.random() < 0.6:
                    progs[t].append(lop("free", a=nn))        # created, used and freed by the same thread: a leaf nobody else knows
        if r.random() < 0.25:
            a = r.choice(range(1, k + 1))
            progs[t].append(lop("notify", a=a)); use(t, a)
    # add(-1) calls: exactly CV0 of them, spread over the threads
    for _ in range(cv0):
        t = r.randrange(nthreads)
        progs[t].insert(0, lop("cadd", a=-1))          # first thing a thread does: nobody waits for the counter before its own share of the decrements
    fin = progs[nthreads - 1]
    if r.random() < 0.5 and k > 1:
        a = r.choice(range(1, k + 1)); fin.insert(0, lop("poll", a=a)); use(nthreads - 1, a)
    for a in roots:
        fin.append(lop("notify", a=a)); use(nthreads - 1, a)
    # a free of an initial leaf by its only user (never an ancestor of anything, never shared)
    children = {e["par"] for e in tree} | {o["b"] for p in progs for o in p if o["op"] == "new"}
    for e in tree:
        a = e["id"]
        if a not in children and len(users.get(a, ())) == 1 and a not in roots and r.random() < 0.5:
            t = next(iter(users[a]))
            if t != nthreads - 1 and not any(o["op"] == "free" for o in progs[t]):
                progs[t].append(lop("free", a=a))
    progs = [p[:8] for p in progs]
    maxnow = max([o["dl"] for p in progs for o in p if o["dl"] not in (NONE,) and o["dl"] > 0] + [e["dl"] for e in tree if e["dl"] != NONE] + [0])
    return dict(tree=tree, NN=max(nn, 1), CV0=cv0, MaxNow=maxnow, progs=progs)
