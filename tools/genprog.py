#!/usr/bin/env python3
"""Generated client programs for Mu.tla / h_mu (DESIGN 9.2: "generated programs").

A program is 3-5 threads of client operations on one mutex, one condition variable, one cancellation note and 1-2 data cells,
drawn from the same operation menu the hand-written configurations use.  The generator only emits programs in which EVERY
thread must finish under EVERY schedule of a correct implementation, so that "somebody is still blocked at the end" is a
violation (O-prog) and not a property of the program:

  * exactly one thread (the setter) ends with   L set11 [set21] U B   -- all cells non-zero for good, then a broadcast
    issued after the critical section; nothing resets a cell after that point (flips happen only earlier in that thread);
  * waits that loop on a cell (cvloop, waitnloop, muwait on a condition over a cell) need no deadline: the final state
    satisfies them and the final broadcast / unlock reaches those already asleep;
  * single waits (cvwait, waitn) always carry a finite deadline (there are no spurious wake-ups to rely on);
  * cn=True (a cancel note) is used only if some thread notifies the note unconditionally;
  * cells are written only under the write lock; unlock_without_wakeup only ends critical sections that changed nothing;
  * no gates (a gate that never opens would be an artificial stuck state).
"""
import random
from muconf import P, op

C1 = [dict(f=1, v=1, eq=False, cell=1)]
CS = [dict(f=1, v=1, eq=True, cell=1), dict(f=1, v=2, eq=True, cell=1), dict(f=1, v=3, eq=True, cell=2), dict(f=2, v=1, eq=False, cell=1)]

FOCUS = {
    "C01": dict(lock=4, cv=2, mw=2, wn=1, dbg=0),
    "C02": dict(lock=6, cv=1, mw=1, wn=0, dbg=0),
    "C04": dict(lock=1, cv=5, mw=1, wn=2, dbg=0),
    "C05": dict(lock=1, cv=3, mw=3, wn=1, dbg=0, timed=True),
    "C06": dict(lock=2, cv=1, mw=6, wn=0, dbg=0),
    "C11": dict(lock=1, cv=2, mw=1, wn=5, dbg=0),
    "C13": dict(lock=1, cv=3, mw=1, wn=4, dbg=0),
    "C16": dict(lock=3, cv=2, mw=1, wn=0, dbg=4),
}


def _lockers(r, k):
    out = []
    for _ in range(k):
        out += r.choice([["L", "U"], ["R", "RU"], ["T"], ["RT"], ["L", "U"], ["R", "RU"]])
    return out


def gen(seed, focus="C02"):
    """returns a configuration dict (progs, NV, conds, MaxNow)"""
    r = random.Random(seed * 7919 + sum(ord(c) for c in focus))
    w = FOCUS.get(focus, FOCUS["C02"])
    nv = r.choice([1, 1, 2]) if w["mw"] >= 2 else 1
    conds = CS if nv == 2 or r.random() < 0.5 else C1
    condids = [i + 1 for i, c in enumerate(conds) if c["cell"] <= nv]
    nthreads = r.choice([3, 4, 4, 5])
    use_note = r.random() < (0.5 if w.get("timed") else 0.3)
    timed_bias = 0.6 if w.get("timed") else 0.35
    progs = []

    def dl():
        return r.choice([1, 2]) if r.random() < timed_bias else 0

    def cn():
        return use_note and r.random() < 0.5

    kinds = [k for k in ("lock", "cv", "mw", "wn", "dbg") for _ in range(w[k])]
    nroles = nthreads - 1 - (1 if use_note else 0)
    for _ in range(max(1, nroles)):
        k = r.choice(kinds)
        if k == "lock":
            progs.append(P(*_lockers(r, r.choice([1, 2, 3]))))
        elif k == "cv":
            mode = r.choice(["L", "L", "R"])
            un = "U" if mode == "L" else "RU"
            form = r.random()
            if form < 0.6:
                wait = op("cvloop", v=r.choice(range(1, nv + 1)), dl=dl(), cn=cn(), x=(9 if mode == "L" and r.random() < 0.15 else 1))
            else:
                wait = op("cvwait", dl=r.choice([1, 2]), cn=cn())
            pre = _lockers(r, 1) if r.random() < 0.3 else []
            post = _lockers(r, 1) if r.random() < 0.3 else []
            progs.append(P(*(pre + [mode, wait, un] + post)))
        elif k == "mw":
            mode = r.choice(["L", "L", "R"])
            un = "U" if mode == "L" else "RU"
            if mode == "L" and r.random() < 0.2:
                un = "UW"
            wait = op("muwait", c=r.choice(condids), dl=dl(), cn=cn())
            pre = _lockers(r, 1) if r.random() < 0.3 else []
            post = _lockers(r, 1) if r.random() < 0.3 else []
            progs.append(P(*(pre + [mode, wait, un] + post)))
        elif k == "wn":
            if r.random() < 0.6:
                wait = op("waitnloop", v=r.choice(range(1, nv + 1)), dl=dl())
            else:
                wait = op("waitn", dl=r.choice([1, 2]), cn=cn())
            progs.append(P("L", wait, "U"))
        else:
            progs.append(P(*r.choice([["D"], ["D", "D"], ["DC"], ["D", "DC"], ["L", "D", "U"], ["R", "DC", "RU"]])))
    if use_note:
        progs.append(P(*(_lockers(r, 1) if r.random() < 0.4 else []) + ["N"] + (_lockers(r, 1) if r.random() < 0.3 else [])))
    # the setter: optional warm-up (plain lockers, a flip of cell 1, stray signals), then the final section
    pre = []
    if r.random() < 0.4:
        pre += _lockers(r, 1)
    if r.random() < 0.35:
        pre += ["L", "set11", "U", "L", "set10", "U"] if r.random() < 0.5 else ["L", "set11", "S", "U", "L", "set10", "U"]
    if r.random() < 0.3:
        pre += [r.choice(["S", "B"])]
    fin = ["L", "set11"] + (["set21"] if nv == 2 else [])
    style = r.random()
    if style < 0.4:
        fin += ["U", "B"]
    elif style < 0.7:
        fin += ["B", "U", "B"] if r.random() < 0.3 else ["S", "U", "B"]
    else:
        fin += ["U", "S", "B"]
    progs.append(P(*(pre + fin)))
    r.shuffle(progs)
    progs = [p[:22] for p in progs]
    maxnow = max([o["dl"] for p in progs for o in p] + [0])
    return dict(progs=progs, NV=nv, conds=conds, MaxNow=maxnow)


if __name__ == "__main__":
    import sys, muconf
    for s in range(int(sys.argv[1]), int(sys.argv[2])):
        print(muconf.init_line(gen(s, sys.argv[3] if len(sys.argv) > 3 else "C02")))
