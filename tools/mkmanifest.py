#!/usr/bin/env python3
"""Regenerates MANIFEST.json from the table below (single source of truth for the interface)."""
import json, os
HERE = os.path.dirname(os.path.dirname(os.path.abspath(__file__)))
MU_NOTE = 'SC interleavings; 2-3 threads, 1-4 operations each, one mutex/cv/note; semaphore, waiter pool and note operations single steps (Sem.tla/Note.tla justify); TLC, SANY, gcc -fsanitize=thread instrumentation, /verif/rt trusted'
TECH = 'TLA+/PlusCal spec at atomic-operation granularity + TLC exhaustive model checking + transition-tour lock-step replay on the real code with property oracles'
def mu(text, ref):
    return ("model_checking", text, MU_NOTE, ref, TECH)
CHECKS = {
 "C01": mu("Mu.tla transcribes mu.c/mu_wait.c/cv.c/wait.c with one label per atomic operation (constants read from the build); TLC explores every interleaving of the configured 2-3 thread programs (lock/rlock/trylock/unlock, timed and cancellable cv waits in read and write mode, conditional waits, wait_n, debug caller) and evaluates Excl in every state; every transition is then replayed in lock-step on the real code, where shadow occupancy at the RWLOCK annotations (O-excl) is checked at each step. Exhaustive for the listed configurations.", "4.C01"),
 "C02": mu("Deadlock freedom / no lost lock wake-up: every terminal state of Mu.tla's graph for lock/rlock/trylock/unlock programs (with thread exit and waiter-pool reuse) must have all threads finished; stuck terminal states are replayed on the real code (O-prog). trylock/rtrylock take at most three shared operations in the spec and the code is shown step-equivalent.", "4.C02"),
 "C04": mu("cv wake-ups: monitor-pattern programs whose only source of progress is the wake-up (signal/broadcast inside or after the critical section, timed, cancellable, reader-mode and nsync_wait_n waiters); lost wake-ups are stuck terminal states; PickedReportsWake says a wait unlinked by a waker returns 0; all transitions replayed on the real code with O-prog/O-ret.", "4.C04"),
 "C05": mu("Timed/cancellable waits: RetHonest in every state; on the code, every wait return is checked for lock mode, ETIMEDOUT only at/after the deadline on the virtual clock, ECANCELED only if the note is notified, mu_wait 0 iff condition true; deadline/note/wake-up orderings enumerated exhaustively by TLC (Tick and notify are schedulable anywhere).", "4.C05"),
 "C06": mu("Conditional critical sections: waiters on conditions of a table (same fn+arg, eq-equivalent args, different args, different functions) in reader/writer mode with timeouts and unlock_without_wakeup; a waiter whose condition was made true and is left asleep is a stuck terminal state; same_condition rings are modelled at pointer level; O-cond checks each real condition callback runs under the lock with no concurrent writer.", "4.C06"),
 "C13": mu("Reference-count pattern (lock; last=--refs==0; unlock; free if last) with 2-3 threads: NoTouchAfterFree (no thread's next step touches mu once freed) in every state and arena poisoning on the code; wakers vs nsync_wait_n records: NoDeadRecordTouch + dead-record tracking (O-mem) on the code.", "4.C13"),
 "C14": mu("Bounded overtaking: victim + a barger that loops for ever (finite graph), K=LONG_WAIT_THRESHOLD read from the build; SleepBound (victim's semaphore sleeps in one lock call < K+3) in every state, tours replayed with O-starve; plus a scripted barge-in-every-window adversary (victim W/R among W/R/trylockers, 1-3 bargers) and random schedules with 4-6 bargers on the real code.", "4.C14"),
 "C16": mu("Debug-state caller added to locker/waiter/waker programs: Excl, WordAgrees and no stuck terminal state in every state of Mu.tla (the release variant of emit_mu_state is observed from the code and selects the model), all transitions replayed on the real debug.c/mu.c with O-excl/O-prog. Buffer-bound part (b) of the property: see level_note.", "4.C16"),
 "C12": ("model_checking", "Sem.tla (futex semaphore at atomic-operation/futex-call granularity) model-checked by TLC for token conservation, honest timeouts and no lost post with up to 3 injected early kernel returns; every transition of every configuration is replayed in lock-step on the real nsync_semaphore_futex.c against a modelled futex, so the exhaustive verdict transfers to the code for these configurations.",
         "modelled futex semantics (value-check+sleep atomic, wake(1), absolute timeouts); one waiter, <=2 posters; SC interleavings; TLC, SANY, gcc -fsanitize=thread instrumentation, /verif/rt runtime", "4.C12",
         "TLA+ spec + TLC exhaustive model checking + full transition-tour lock-step replay on the real code"),
 "C17": ("model_checking", "Dll.tla: pointer-level transcription of dll.c with ghost abstract sequences; TLC reaches a fixpoint over 5 elements / 2 lists (all operation sequences of any length over that universe) checking forward/backward traversal = sequence, self-linked singletons, emptiness; every transition replayed on the real dll.c comparing traversals with the abstract sequences (O-diff), plus TLC-simulated longer sequences over 8 elements.",
         "C preconditions respected; universe of 5 (exhaustive) and 8 (sampled) elements; TLC, SANY trusted", "4.C17",
         "TLA+ spec + TLC exhaustive model checking (fixpoint) + full transition replay with differential comparison"),
}
NA = {}
props = [json.loads(l)["id"] for l in open(os.path.join(HERE, "properties.jsonl"))]
m = {"version": 1,
     "setup_cmd": "./setup.sh",
     "hooks": {"guard": "NSYNC_VERIF", "enable": "no source hooks: the code under test is compiled from /repo with gcc -fsanitize=thread and linked against /verif/rt (our runtime) instead of libtsan; see tools/vbuild.py",
               "baseline_off_cmd": "cmake -G Ninja -S /repo -B /repo/_build >/dev/null && cmake --build /repo/_build >/dev/null && ctest --test-dir /repo/_build -j8 --timeout 900",
               "source_commits": [], "add_only": True},
     "engines": [{"name": "tlc+rt", "path": "/verif/check", "serves_properties": sorted(CHECKS), "kind_free_text": "TLA+/PlusCal specifications checked by TLC; bound to the code by lock-step replay of TLC behaviours and by validation of recorded traces, on a deterministic fiber runtime fed by compiler instrumentation"}],
     "checks": [], "not_applicable": [], "notes": "see DESIGN.md"}
for p in props:
    if p in CHECKS:
        lvl, text, note, ref, tech = CHECKS[p]
        m["checks"].append({"property_id": p, "quick_cmd": "./check %s --tier quick" % p, "thorough_cmd": "./check %s --tier thorough" % p,
                            "evidence_file": "/verif/evidence/%s.json" % p, "replay_cmd_template": "./check %s --replay {path}" % p,
                            "engine": "tlc+rt", "level_claimed": {"category": lvl, "text": text, "design_ref": ref}, "level_note": note, "technique": tech})
    else:
        m["not_applicable"].append({"property_id": p, "reason": NA.get(p, "check not built yet in this session (planned: see DESIGN.md section 4); not claimed until its check exists")})
json.dump(m, open(os.path.join(HERE, "MANIFEST.json"), "w"), indent=1)
print("checks:", len(m["checks"]), "not_applicable:", len(m["not_applicable"]))
