#!/usr/bin/env python3
"""Regenerates MANIFEST.json from the table below (single source of truth for the interface)."""
import json, os
HERE = os.path.dirname(os.path.dirname(os.path.abspath(__file__)))
CHECKS = {
 "C12": ("model_checking", "Sem.tla (futex semaphore at atomic-operation/futex-call granularity) model-checked by TLC for token conservation, honest timeouts and no lost post with up to 3 injected early kernel returns; every transition of every configuration is replayed in lock-step on the real nsync_semaphore_futex.c against a modelled futex, so the exhaustive verdict transfers to the code for these configurations.",
         "modelled futex semantics (value-check+sleep atomic, wake(1), absolute timeouts); one waiter, <=2 posters; SC interleavings; TLC, SANY, gcc -fsanitize=thread instrumentation, /verif/rt runtime", "4.C12",
         "TLA+ spec + TLC exhaustive model checking + full transition-tour lock-step replay on the real code"),
}
NA = {}
props = [json.loads(l)["id"] for l in open(os.path.join(HERE, "properties.jsonl"))]
m = {"version": 1,
     "setup_cmd": "./setup.sh",
     "hooks": {"guard": "NSYNC_VERIF", "enable": "no source hooks: the code under test is compiled from /repo with gcc -fsanitize=thread and linked against /verif/rt (our runtime) instead of libtsan; see tools/vbuild.py",
               "baseline_off_cmd": "cmake -G Ninja -S /repo -B /repo/_build >/dev/null && cmake --build /repo/_build >/dev/null && ctest --test-dir /repo/_build -j8 --timeout 900",
               "source_commits": [], "add_only": True},
     "engines": [{"name": "tlc+rt", "path": "/verif/check", "serves_properties": sorted(CHECKS), "kind_free_text": "TLA+/PlusCal specifications checked by TLC; bound to the code by lock-step replay of TLC behaviours and by validation of recorded traces, on a deterministic fiber runtime fed by compiler instrumentation"}],
     "checks": [], "not_applicable": [], "notes": "see DESIGN.md"}
for p in props:
    if p in CHECKS:
        lvl, text, note, ref, tech = CHECKS[p]
        m["checks"].append({"property_id": p, "quick_cmd": "./check %s --tier quick" % p, "thorough_cmd": "./check %s --tier thorough" % p,
                            "evidence_file": "/verif/evidence/%s.json" % p, "replay_cmd_template": "./check %s --replay {path}" % p,
                            "engine": "tlc+rt", "level_claimed": {"category": lvl, "text": text, "design_ref": ref}, "level_note": note, "technique": tech})
    else:
        m["not_applicable"].append({"property_id": p, "reason": NA.get(p, "check not built yet in this session (planned: see DESIGN.md section 4); not claimed until its check exists")})
json.dump(m, open(os.path.join(HERE, "MANIFEST.json"), "w"), indent=1)
print("checks:", len(m["checks"]), "not_applicable:", len(m["not_applicable"]))
