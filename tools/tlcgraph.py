#!/usr/bin/env python3
"""Run TLC on a configuration whose ACTION_CONSTRAINT prints every generated transition
(see `Edge` in the specs), collect the state graph, and build transition tours: a set of
behaviours from initial states that together take every transition at least once and end
in terminal states.  DESIGN.md 3.3."""
import json, os, re, shutil, subprocess, sys, time, collections

TLA_JAR = "/opt/veriftools/tla/tla2tools.jar"
GHOST_KEYS = ("bad", "done", "taint3", "taint4", "taint5", "taint6")
CM_JAR = "/opt/veriftools/tla/CommunityModules-deps.jar"


def tlc_cmd(spec, cfg, workers, metadir, extra=(), heap="8g", simulate=None, depth=None, seed=None):
    cmd = ["java", "-XX:+UseSerialGC", "-Xmx%s" % heap, "-cp", TLA_JAR + ":" + CM_JAR, "tlc2.TLC", "-workers", str(workers), "-metadir", metadir, "-config", cfg]
    if simulate:
        cmd += ["-simulate", "num=%d" % simulate]
    if depth:
        cmd += ["-depth", str(depth)]
    if seed is not None:
        cmd += ["-seed", str(seed)]
    cmd += list(extra) + [spec]
    return cmd


class CObs:
    """what is kept of the observation shipped with an edge: its schedule text (ghost keys removed) and the ghost verdicts.  Edges into
    the same state share one object (a million-edge graph of parsed JSON dictionaries does not fit in memory)."""
    __slots__ = ("text", "bad", "done", "taints")

    def get(self, k, default=None):
        if k == "bad":
            return self.bad
        if k == "done":
            return self.done
        if k.startswith("taint"):
            return k in self.taints
        return default


class Graph:
    def __init__(self):
        self.ids = {}          # fp pair -> node id
        self.inits = []
        self.out = []          # node -> list of edge ids
        self.edges = []        # (u, v, actor, label, obs)
        self.seen = set()
        self.partial = False   # from simulation: terminal nodes are not meaningful
        self._ocache = {}

    def compact(self, obs):
        text = fmt_obs(obs, [k for k in obs.keys() if k not in GHOST_KEYS])
        key = (text, tuple(obs.get("bad", ())), obs.get("done"), tuple(k for k in GHOST_KEYS if k.startswith("taint") and obs.get(k)))
        c = self._ocache.get(key)
        if c is None:
            c = CObs(); c.text, c.bad, c.done, c.taints = key
            self._ocache[key] = c
        return c

    def node(self, a, b):
        k = (a, b)
        i = self.ids.get(k)
        if i is None:
            i = len(self.out)
            self.ids[k] = i
            self.out.append([])
        return i

    def add_edge(self, rec):
        u = self.node(rec[1], rec[2]); v = self.node(rec[3], rec[4])
        key = (u, v, rec[5], sys.intern(rec[6]))
        if key in self.seen:
            return
        self.seen.add(key)
        self.out[u].append(len(self.edges))
        self.edges.append((u, v, rec[5], key[3], self.compact(rec[7])))


def run_tlc_graph(spec, cfg, workers=8, metadir=None, timeout=3600, cwd=None, keep_log=None, env=None, simulate=None, sim_seed=1):
    """returns (graph, info) ; info has states, distinct, violated (name or None), error trace text, wall"""
    import threading
    metadir = metadir or os.path.join("/verif/build/work", str(os.getpid()), "tlc", "g%d_%d" % (threading.get_ident() % 100000, int(time.time() * 1000) % 100000))
    os.makedirs(os.path.dirname(metadir), exist_ok=True)
    g = Graph()
    info = {"states": 0, "distinct": 0, "violated": None, "ok": False, "log": []}
    t0 = time.time()
    # simulate=(num, depth): TLC's random simulation instead of breadth-first search.  Every successor TLC generates along the way is
    # shipped like in BFS, so the result is a PARTIAL graph (g.partial): nodes without outgoing edges are merely unexpanded
    if simulate:
        cmd = ["timeout", str(timeout)] + tlc_cmd(spec, cfg, workers, metadir, simulate=simulate[0], depth=simulate[1], seed=sim_seed)
        g.partial = True
    else:
        cmd = ["timeout", str(timeout)] + tlc_cmd(spec, cfg, workers, metadir)
    p = subprocess.Popen(cmd, stdout=subprocess.PIPE, stderr=subprocess.STDOUT, text=True, cwd=cwd, env=env)
    logf = open(keep_log, "w") if keep_log else None
    for line in p.stdout:
        if line.startswith('"['):
            try:
                rec = json.loads(json.loads(line))
            except Exception:
                continue
            if rec[0] == "E":
                g.add_edge(rec)
            elif rec[0] == "I":
                g.inits.append(g.node(rec[1], rec[2]))
            continue
        if logf:
            logf.write(line)
        info["log"].append(line.rstrip("\n"))
        if len(info["log"]) > 400:
            info["log"] = info["log"][-400:]
        m = re.match(r"(\d+) states generated, (\d+) distinct states found", line)
        if m:
            info["states"] = int(m.group(1)); info["distinct"] = int(m.group(2))
        m = re.match(r"Error: Invariant (\S+) is violated", line)
        if m:
            info["violated"] = m.group(1)
        if "Deadlock reached" in line:
            info["violated"] = "Deadlock"
        if "is violated" in line and "property" in line.lower():
            info["violated"] = info["violated"] or line.strip()
        if line.startswith("Model checking completed. No error has been found."):
            info["ok"] = True
    p.wait()
    if logf:
        logf.close()
    info["rc"] = p.returncode
    if simulate and p.returncode == 0:
        info["ok"] = True
        info["distinct"] = len(g.out); info["states"] = len(g.edges)
    info["wall"] = time.time() - t0
    shutil.rmtree(metadir, ignore_errors=True)
    return g, info


def build_tours(g, max_len=100000, cap_tours=None):
    """every edge covered at least once; each tour starts in an initial state and (when the graph has
    terminal states reachable) ends in a terminal state."""
    n = len(g.out)
    # BFS tree
    parent = [None] * n
    order = []
    dq = collections.deque()
    seen = [False] * n
    for i in g.inits:
        if not seen[i]:
            seen[i] = True; dq.append(i)
    while dq:
        u = dq.popleft(); order.append(u)
        for e in g.out[u]:
            v = g.edges[e][1]
            if not seen[v]:
                seen[v] = True; parent[v] = e; dq.append(v)
    # shortest exit to a terminal node
    rev = [[] for _ in range(n)]
    for ei, e in enumerate(g.edges):
        rev[e[1]].append(ei)
    exit_edge = [None] * n
    dist = [None] * n
    dq = collections.deque()
    for u in range(n):
        if not g.out[u]:
            dist[u] = 0; dq.append(u)
    while dq:
        v = dq.popleft()
        for ei in rev[v]:
            u = g.edges[ei][0]
            if dist[u] is None:
                dist[u] = dist[v] + 1; exit_edge[u] = ei; dq.append(u)
    covered = bytearray(len(g.edges))
    nextidx = [0] * n     # per node pointer into out list for the greedy walk
    tours = []

    def tree_path(u):
        p = []
        while parent[u] is not None:
            e = parent[u]; p.append(e); u = g.edges[e][0]
        p.reverse()
        return p

    for u in order:
        for e0 in g.out[u]:
            if covered[e0]:
                continue
            path = tree_path(u)
            path.append(e0)
            for e in path:
                covered[e] = 1
            cur = g.edges[e0][1]
            while len(path) < max_len:
                found = None
                lst = g.out[cur]
                i = nextidx[cur]
                while i < len(lst) and covered[lst[i]]:
                    i += 1
                nextidx[cur] = i
                if i < len(lst):
                    found = lst[i]
                if found is None:
                    break
                covered[found] = 1
                path.append(found)
                cur = g.edges[found][1]
            while exit_edge[cur] is not None and len(path) < max_len + 10000:
                e = exit_edge[cur]
                covered[e] = 1
                path.append(e); cur = g.edges[e][1]
            tours.append(path)
            if cap_tours and len(tours) >= cap_tours:
                return tours
    return tours


def fmt_obs(obs, keys=None):
    if isinstance(obs, CObs):
        return obs.text

    def f(v):
        if v is True:
            return "1"
        if v is False:
            return "0"
        if isinstance(v, list):
            return "[" + ",".join(f(x) for x in v) + "]"
        if isinstance(v, dict):
            return "{" + ",".join("%s:%s" % (k, f(x)) for k, x in v.items()) + "}"
        return str(v)
    ks = keys or list(obs.keys())
    return " ".join("%s=%s" % (k, f(obs[k])) for k in ks)


def write_schedule(path, g, tours, init_text, obs_fmt=fmt_obs, init_of=None):
    cache = {}
    with open(path, "w") as f:
        for ti, t in enumerate(tours):
            it = init_text if init_of is None else init_of(g, t)
            out = ["T %d %s\n" % (ti + 1, it)]
            for e in t:
                line = cache.get(e)
                if line is None:
                    u, v, actor, label, obs = g.edges[e]
                    line = "S %d %s %s\n" % (actor, label, obs_fmt(obs))
                    cache[e] = line
                out.append(line)
            if t and getattr(g, "partial", False) and not g.out[g.edges[t[-1]][1]]:
                # the behaviour stops at a node simulation did not expand: the specification's eager local steps that would
                # follow the last step are not in the graph, so the state after it cannot be compared
                u, v, actor, label, obs = g.edges[t[-1]]
                out[-1] = "S %d %s *\n" % (actor, label)
            last = g.edges[t[-1]][4] if t else None
            taints = [k for k in GHOST_KEYS if k.startswith("taint") and last is not None and last.get(k)]
            out.append("E %s\n" % " ".join(taints) if taints else "E\n")
            f.write("".join(out))
    return sum(len(t) for t in tours)


def run_tlc_sim(spec, cfg, num, depth, workers=4, seed=1, timeout=1800, cwd=None, env=None):
    """simulation with a history-printing CONSTRAINT (see *Sim.tla): returns list of behaviours,
    each a list of (label, obs[, actor])"""
    metadir = os.path.join("/verif/build/work", str(os.getpid()), "tlc", "s%d_%d" % (os.getpid(), int(time.time() * 1000) % 100000))
    cmd = ["timeout", str(timeout), "java", "-XX:+UseSerialGC", "-Xmx4g", "-cp", TLA_JAR + ":" + CM_JAR, "tlc2.TLC", "-workers", str(workers), "-metadir", metadir, "-config", cfg,
           "-simulate", "num=%d" % num, "-depth", str(depth), "-seed", str(seed), spec]
    p = subprocess.Popen(cmd, stdout=subprocess.PIPE, stderr=subprocess.STDOUT, text=True, cwd=cwd, env=env)
    out = []; log = []
    for line in p.stdout:
        if line.startswith('"['):
            try:
                rec = json.loads(json.loads(line))
            except Exception:
                continue
            if rec[0] == "H":
                out.append(rec[1])
        else:
            log.append(line.rstrip("\n"))
    p.wait()
    shutil.rmtree(metadir, ignore_errors=True)
    return out, {"rc": p.returncode, "log": log[-60:]}




def fmt_obs_noghost(obs):
    if isinstance(obs, CObs):
        return obs.text
    return fmt_obs(obs, [k for k in obs.keys() if k not in GHOST_KEYS])


def bfs_parents(g):
    n = len(g.out)
    parent = [None] * n
    seen = [False] * n
    dq = collections.deque()
    order = []
    for i in g.inits:
        if not seen[i]:
            seen[i] = True; dq.append(i)
    while dq:
        u = dq.popleft(); order.append(u)
        for e in g.out[u]:
            v = g.edges[e][1]
            if not seen[v]:
                seen[v] = True; parent[v] = e; dq.append(v)
    return parent, order


def path_to_node(g, parent, v):
    p = []
    while parent[v] is not None:
        e = parent[v]; p.append(e); v = g.edges[e][0]
    p.reverse()
    return p


def analyse(g):
    """spec-level findings shipped with the graph: refuted invariants (obs.bad), stuck terminal states (obs.done false)
    returns list of dict(kind, name, path, taints, label)"""
    parent, order = bfs_parents(g)
    depth = {}
    for u in order:
        depth[u] = 0 if parent[u] is None else depth[g.edges[parent[u]][0]] + 1
    found = {}
    indeg_obs = {}
    for ei, e in enumerate(g.edges):
        obs = e[4]
        indeg_obs.setdefault(e[1], (ei, obs))
        for name in obs.get("bad", []):
            taints = tuple(k for k in GHOST_KEYS if k.startswith("taint") and obs.get(k))
            key = ("inv", name, taints)
            d = depth.get(e[0], 10 ** 9) + 1
            if key not in found or d < found[key][0]:
                found[key] = (d, ei)
    out = []

    def finish_locals(path):
        # the specification takes local steps (labels ending in _l) eagerly: a counterexample ends after them
        cur = g.edges[path[-1]][1] if path else None
        k = 0
        while cur is not None and k < 64:
            nxt = [e for e in g.out[cur] if g.edges[e][3].endswith("_l") and g.edges[e][2] != 0]
            if not nxt:
                break
            path.append(nxt[0]); cur = g.edges[nxt[0]][1]; k += 1
        return path
    for (kind, name, taints), (d, ei) in found.items():
        out.append(dict(kind="inv", name=name, taints=list(taints), path=finish_locals(path_to_node(g, parent, g.edges[ei][0]) + [ei]), label=g.edges[ei][3]))
    stuck = {}
    for v in range(len(g.out)):
        if getattr(g, "partial", False):
            break
        if not g.out[v] and v in indeg_obs:
            ei, obs = indeg_obs[v]
            if obs.get("done") is False:
                taints = tuple(k for k in GHOST_KEYS if k.startswith("taint") and obs.get(k))
                d = depth.get(v, 10 ** 9)
                if taints not in stuck or d < stuck[taints][0]:
                    stuck[taints] = (d, v, ei)
    for taints, (d, v, ei) in stuck.items():
        out.append(dict(kind="stuck", name="NoStuck", taints=list(taints), path=path_to_node(g, parent, v), label=g.edges[ei][3]))
    return out
