"""Shared plumbing of the per-property checks: building, running TLC and harnesses, the decision
rule (DESIGN.md 3.7), KNOWN_FINDINGS (3.8) and evidence files."""
import json, os, re, subprocess, sys, time, shutil

VERIF = os.path.dirname(os.path.dirname(os.path.abspath(__file__)))
sys.path.insert(0, os.path.join(VERIF, "tools"))
import tlcgraph, vbuild  # noqa: E402

REPO = os.environ.get("VERIF_REPO", "/repo")
SPEC = os.path.join(VERIF, "spec")
BUILD = os.path.join(VERIF, "build")
EVID = os.environ.get("VERIF_EVID", os.path.join(VERIF, "evidence"))
REPLAYS = os.environ.get("VERIF_REPLAYS", os.path.join(VERIF, "replays"))
KNOWN = os.path.join(VERIF, "KNOWN_FINDINGS")
WORK = os.path.join(BUILD, "work", str(os.getpid()))      # per-process scratch: MC modules, schedules, TLC meta-directories
import atexit


def _cleanup():
    shutil.rmtree(WORK, ignore_errors=True)


atexit.register(_cleanup)


class ToolFailure(Exception):
    pass


def seed():
    try:
        return int(os.environ.get("VERIF_SEED", "1"))
    except ValueError:
        return 1


def known_findings(prop):
    """known: property=<id> sig=<regex over 'oracle|fn|...|msg'> -- text"""
    out = []
    if not os.path.exists(KNOWN):
        return out
    for line in open(KNOWN):
        line = line.strip()
        m = re.match(r"known:\s+property=(\S+)\s+sig=(\S+)\s+--\s+(.*)", line)
        if m and m.group(1) == prop:
            out.append((m.group(2), m.group(3)))
    return out


class Run:
    """one invocation of a check"""

    def __init__(self, prop, tier, level):
        self.prop = prop; self.tier = tier; self.level = level
        self.t0 = time.time()
        self.cov = {"samples": [], "rule": "", "trusted_base": []}
        self.assumptions = []
        self.violations = []      # (signature text, replay path, message)
        self.known_hits = []
        self.notes = []
        os.makedirs(EVID, exist_ok=True)
        os.makedirs(REPLAYS, exist_ok=True)
        os.makedirs(os.path.join(WORK, "tlc"), exist_ok=True)

    def add(self, key, n):
        self.cov[key] = self.cov.get(key, 0) + n

    def sample(self, s):
        if len(self.cov["samples"]) < 6:
            self.cov["samples"].append(s)

    def note(self, s):
        self.notes.append(s)
        print("note: " + s)

    def violation(self, sig, replay, msg):
        """sig: 'oracle|fn|...' string used to match KNOWN_FINDINGS"""
        for pat, text in known_findings(self.prop):
            if re.search(pat, sig + "|" + msg):
                if (pat, text) not in self.known_hits:
                    self.known_hits.append((pat, text))
                return False
        if replay == "-" and any(r != "-" for _, r, _ in self.violations):
            return True          # the harness writes schedule files for its first few failures only; those have been reported
        self.violations.append((sig, replay, msg))
        return True

    def finish(self):
        wall = time.time() - self.t0
        for pat, text in self.known_hits:
            print("KNOWN-FINDING: property=%s %s" % (self.prop, text))
        ev = {"property_id": self.prop, "tier": self.tier, "seed": seed(), "level": self.level,
              "coverage": self.cov, "assumptions": self.assumptions, "wall_s": round(wall, 2),
              "violations": len(self.violations)}
        if self.notes:
            ev["coverage"]["notes"] = self.notes[:40]
        if self.known_hits:
            ev["coverage"]["known_findings_reproduced"] = [t for _, t in self.known_hits]
        if os.environ.get("VERIF_REPLAY_RUN"):
            path = os.path.join(EVID, self.prop + ".replay.json")
        else:
            path = os.path.join(EVID, self.prop + ".json")
        with open(path, "w") as f:
            json.dump(ev, f, indent=1)
        if self.violations:
            seen = set()
            for sig, replay, msg in self.violations:
                key = re.sub(r"[0-9]+", "#", sig + msg[:80])
                if key in seen or len(seen) >= 12:
                    continue
                seen.add(key)
                print("VIOLATION property=%s replay=%s" % (self.prop, replay))
                print("  what: %s | %s" % (sig, msg))
            return 1
        print("OK property=%s tier=%s wall=%.1fs" % (self.prop, self.tier, wall))
        return 0


def build(harness, flavour="c", extra_defs=(), out=None, harness_src=None):
    return vbuild.build(harness, flavour, out=out, repo=REPO, extra_defs=extra_defs, harness_src=harness_src)


def kdefs(k):
    """build the library with LONG_WAIT_THRESHOLD = k through the guarded hook in internal/common.h"""
    return ("-DNSYNC_VERIF", "-DNSYNC_VERIF_LONG_WAIT_THRESHOLD=%d" % k)


def replay_target(path, default="h_mu"):
    """the harness (and its environment) a schedule file was written for: tokens on its first T line"""
    head = ""
    try:
        with open(path) as f:
            for line in f:
                if line.startswith("T "):
                    head = line
                    break
    except OSError:
        pass
    env, defs = {}, ()
    m = re.search(r"harness=(\S+)", head)
    if m:
        name = m.group(1)
    elif "spec=" in head:
        name = "h_l2"
    elif "Binary=1" in head:
        name = "h_mub"
    else:
        name = default
    if "fine=1" in head:
        env["VERIF_FINE"] = "1"
    if "plain=1" in head:
        env["VERIF_PLAIN"] = "1"
    m = re.search(r"ignore=(\S+)", head)
    if m:
        env["VERIF_IGNORE"] = m.group(1)
    m = re.search(r"\bsb=(\d+)", head)
    if m:
        env["VERIF_SB"] = m.group(1)
    m = re.search(r"kthr=(\d+)", head)
    if m:
        defs = kdefs(int(m.group(1)))
    m = re.search(r"flavour=(\S+)", head)
    return build(name, flavour=m.group(1) if m else "c", extra_defs=defs), env


def write_cfg(path, spec="SpecE", consts=None, invariants=(), constraints=(), action_constraints=(), props=(), deadlock=False, extra=""):
    with open(path, "w") as f:
        f.write("SPECIFICATION %s\n" % spec)
        if consts:
            f.write("CONSTANTS\n")
            for k, v in consts.items():
                if v is True:
                    v = "TRUE"
                elif v is False:
                    v = "FALSE"
                f.write("  %s = %s\n" % (k, v))
        for i in invariants:
            f.write("INVARIANT %s\n" % i)
        for i in props:
            f.write("PROPERTY %s\n" % i)
        for c in constraints:
            f.write("CONSTRAINT %s\n" % c)
        for c in action_constraints:
            f.write("ACTION_CONSTRAINT %s\n" % c)
        f.write("CHECK_DEADLOCK %s\n" % ("TRUE" if deadlock else "FALSE"))
        f.write(extra)
    return path


def run_harness(exe, args, timeout=1800, stdin=None, env=None):
    """returns dict(stats, viols, mismatch, ords, rc, out)"""
    try:
        r = subprocess.run(["timeout", str(timeout), exe] + list(args), stdout=subprocess.PIPE, stderr=subprocess.PIPE, text=True, input=stdin,
                           env=dict(os.environ, **env) if env else None)
    except Exception as e:
        raise ToolFailure("harness failed to run: %s" % e)
    res = {"stats": {}, "viols": [], "mismatch": None, "ords": [], "rc": r.returncode, "out": r.stdout, "err": r.stderr, "lines": []}
    for line in r.stdout.splitlines():
        if line.startswith("STATS "):
            for kv in line.split()[1:]:
                k, v = kv.split("=")
                res["stats"][k] = res["stats"].get(k, 0) + int(v)
        elif line.startswith("VIOL "):
            parts = line[5:].split("|", 5)
            res["viols"].append(parts)
        elif line.startswith("DIVFILE "):
            res.setdefault("divfiles", []).append(line[8:].strip())
        elif line.startswith("MISMATCH ") and res["mismatch"] is None:
            res["mismatch"] = line[9:]
        elif line.startswith("ORD "):
            res["ords"].append(line.split()[1:])
        else:
            res["lines"].append(line)
    if r.returncode not in (0, 1):
        raise ToolFailure("harness %s exited %d: %s %s" % (exe, r.returncode, r.stdout[-2000:], r.stderr[-2000:]))
    return res


def tlc_plain(spec, cfg, workers=8, timeout=3600, extra=(), cwd=SPEC, env=None):
    if "Postcondition" in "":
        pass
    """run TLC without graph export; returns info dict"""
    metadir = os.path.join(WORK, "tlc", "p%d_%d" % (os.getpid(), int(time.time() * 1000) % 1000000))
    cmd = ["timeout", str(timeout), "java", "-XX:+UseSerialGC", "-Xmx6g", "-cp", tlcgraph.TLA_JAR + ":" + tlcgraph.CM_JAR, "tlc2.TLC",
           "-workers", str(workers), "-metadir", metadir, "-config", cfg] + list(extra) + [spec]
    t0 = time.time()
    r = subprocess.run(cmd, stdout=subprocess.PIPE, stderr=subprocess.STDOUT, text=True, cwd=cwd, env=env)
    shutil.rmtree(metadir, ignore_errors=True)
    info = {"out": r.stdout, "rc": r.returncode, "wall": time.time() - t0, "states": 0, "distinct": 0, "violated": None, "ok": False}
    for line in r.stdout.splitlines():
        m = re.match(r"(\d+) states generated, (\d+) distinct states found", line)
        if m:
            info["states"] = int(m.group(1)); info["distinct"] = int(m.group(2))
        m = re.match(r"Error: Invariant (\S+) is violated", line)
        if m:
            info["violated"] = m.group(1)
        if "Deadlock reached" in line:
            info["violated"] = "Deadlock"
        if "Temporal properties were violated" in line:
            info["violated"] = "Temporal"
        if line.startswith("Model checking completed. No error has been found."):
            info["ok"] = True
        if "Postcondition" in line and "is false" in line:
            info["postcondition_failed"] = True
    return info
