from notelib import note_check


def main(tier, replay=None):
    return note_check("C09", tier, replay, {"NoUseAfterFree", "NoStuck", "DescendantsNotified"}, {"O-mem", "O-prog", "O-lin"})
