"""C14: a blocked locker cannot be overtaken indefinitely.  Mu.tla with a barger that loops for ever
(the graph stays finite), K = LONG_WAIT_THRESHOLD read from the build; SleepBound checked by TLC in every
state, every transition replayed on the real mu.c with O-starve; plus a scripted adversary and random
schedules with many bargers on the real code."""
from mulib import *
import muconfigs


def post(run, exe, results, env):
    K = consts()["K"]
    maxs = max([out["res"]["maxsleeps"] for _, _, out in results] + [0])
    run.cov["max_victim_sleeps_in_tours"] = maxs
    # scripted adversary on the real code: victim/barger modes, 1-3 bargers
    scen = [("W among W", [P("L", "U")] + [P("L", "U")]), ("W among R", [P("L", "U")] + [P("R", "RU")]), ("R among W", [P("R", "RU")] + [P("L", "U")]),
            ("W among W+R", [P("L", "U"), P("L", "U"), P("R", "RU")]), ("W among RRR", [P("L", "U"), P("R", "RU"), P("R", "RU"), P("R", "RU")]),
            ("W among trylockers", [P("L", "U"), P("T"), P("RT")])]
    for name, progs in scen:
        conf = dict(progs=progs, NV=1, Loopers=list(range(2, len(progs) + 1)))
        e = dict(env, VERIF_SB=str(K + len(progs) + 1))
        res = run_harness_env(exe, ["adversary", "sb=%d " % (K + len(progs) + 1) + muconf.init_line(conf), REPLAYS], e)
        run.add("evaluations", 1); run.add("distinct_nontrivial", 1)
        run.cov.setdefault("adversary", []).append({"scenario": name, "victim_sleeps": res["maxsleeps"], "bound": K + len(progs) + 1})
        for v in res["viols"]:
            run.violation("%s|%s|adversary %s" % (v[0], v[1], name), v[4], v[5])
    # the same with LONG_WAIT_THRESHOLD = 2 (guarded hook NSYNC_VERIF_LONG_WAIT_THRESHOLD in internal/common.h): the escalation is reached
    # after two lost wake-ups, so every configuration of the family is small enough to be explored exhaustively, transitions and all
    K2 = 2
    exe2 = build("h_mu", extra_defs=kdefs(K2))
    fam2 = []
    for name, conf in muconfigs.family("C14", "thorough"):
        conf = dict(conf); conf["K"] = K2; conf["SB"] = K2 + 3; conf["kthr"] = K2
        fam2.append((name + "_k2", conf))
    res2 = run_family(run, exe2, "C14", fam2, env=dict(env, VERIF_SB=str(K2 + 3)))
    run.cov["max_victim_sleeps_in_tours_k2"] = max([out["res"]["maxsleeps"] for _, _, out in res2] + [0])
    # search for the schedule that sends the victim back to sleep most often: hill climbing over schedule prefixes (h_mu climb)
    cruns = {"quick": (3000, 20000), "thorough": (60000, 400000)}[run.tier]
    for k, x, nbs, nruns in ((K, exe, (1, 2, 3), cruns[0]), (K2, exe2, (2, 3, 5), cruns[1])):
        for nb in nbs:
            progs = [P("L", "U")] + [P("L", "U") if i % 2 == 0 else P("R", "RU") for i in range(nb)]
            conf = dict(progs=progs, NV=1, Loopers=list(range(2, nb + 2)))
            if k != K:
                conf["kthr"] = k
            bound = k + nb + 2
            res = run_harness_env(x, ["climb", str(nruns), str(seed() + nb), "sb=%d " % bound + muconf.init_line(conf), REPLAYS], dict(env, VERIF_SB=str(bound)))
            run.add("evaluations", nruns); run.add("distinct_nontrivial", res["stats"].get("nontrivial", 0))
            run.cov.setdefault("schedule_search", []).append({"K": k, "bargers": nb, "runs": nruns, "max_victim_sleeps": res["maxsleeps"], "bound": bound})
            for v in res["viols"]:
                run.violation("%s|%s|search K=%d bargers=%d" % (v[0], v[1], k, nb), v[4], v[5])
    # ... and with bargers of another kind: a thread that sits in a condition-variable wait loop on the same mutex (it re-acquires after every
    # signal and, its condition being false, waits again) and a thread that keeps signalling
    from muconfigs import cvl
    for k, x, nruns in ((K, exe, cruns[0]), (K2, exe2, cruns[1])):
        for nw in (1, 2):
            progs = [P("L", "U")] + [P("L", cvl(v=1), "U")] * nw + [P("S")]
            conf = dict(progs=progs, NV=1, Loopers=list(range(2, len(progs) + 1)))
            if k != K:
                conf["kthr"] = k
            bound = k + len(progs) + 1
            res = run_harness_env(x, ["climb", str(nruns), str(seed() + 10 + nw), "sb=%d " % bound + muconf.init_line(conf), REPLAYS], dict(env, VERIF_SB=str(bound)))
            run.add("evaluations", nruns); run.add("distinct_nontrivial", res["stats"].get("nontrivial", 0))
            run.cov.setdefault("schedule_search", []).append({"K": k, "bargers": "%d cv-loop waiter(s) + signaller" % nw, "runs": nruns, "max_victim_sleeps": res["maxsleeps"], "bound": bound})
            for v in res["viols"]:
                run.violation("%s|%s|search K=%d cv waiters=%d" % (v[0], v[1], k, nw), v[4], v[5])
    # ... and bargers that take the mutex once and then call nsync_mu_wait_with_deadline twenty times on a condition that stays false, with
    # a deadline that has passed: every call releases the mutex (waking the victim), times out at once and re-acquires through the timeout path
    from muconfigs import mwt, C1
    for k, x, nruns in ((K, exe, cruns[0]), (K2, exe2, cruns[1])):
        for nw in (1, 2):
            # (a plain barger first drives the victim to the escalation; the timed waiters must then respect it like anybody else)
            progs = [P("L", "U"), P("L", "U")] + [P(*(["L"] + [mwt(1, dl=-1)] * 20 + ["U"]))] * nw
            conf = dict(progs=progs, NV=1, conds=C1, Loopers=list(range(2, len(progs) + 1)))
            if k != K:
                conf["kthr"] = k
            bound = k + len(progs) + 2
            res = run_harness_env(x, ["climb", str(nruns), str(seed() + 20 + nw), "sb=%d " % bound + muconf.init_line(conf), REPLAYS], dict(env, VERIF_SB=str(bound)))
            run.add("evaluations", nruns); run.add("distinct_nontrivial", res["stats"].get("nontrivial", 0))
            run.cov.setdefault("schedule_search", []).append({"K": k, "bargers": "1 plain + %d timed conditional waiter(s)" % nw, "runs": nruns, "max_victim_sleeps": res["maxsleeps"], "bound": bound})
            for v in res["viols"]:
                run.violation("%s|%s|search K=%d timed waiters=%d" % (v[0], v[1], k, nw), v[4], v[5])
    # random schedules with many barging threads
    runs = 300 if run.tier == "quick" else 5000
    for nb in (4, 6):
        progs = [P("L", "U")] + [P("L", "U") if i % 2 else P("R", "RU") for i in range(nb)]
        conf = dict(progs=progs, NV=1, Loopers=list(range(2, nb + 2)))
        e = dict(env, VERIF_SB=str(K + nb + 2))
        res = run_harness_env(exe, ["random", str(runs), str(seed()), "sb=%d " % (K + nb + 2) + muconf.init_line(conf), REPLAYS], e)
        run.add("evaluations", runs); run.add("distinct_nontrivial", res["stats"].get("nontrivial", 0))
        run.cov.setdefault("random_bargers", []).append({"bargers": nb, "runs": runs, "max_victim_sleeps": res["maxsleeps"], "bound": K + nb + 2})
        for v in res["viols"]:
            run.violation("%s|%s|random bargers" % (v[0], v[1]), v[4], v[5])


def main(tier, replay=None):
    K = consts()["K"]
    fam = []
    for name, conf in muconfigs.family("C14", tier):
        conf = dict(conf); conf["K"] = K; conf["SB"] = K + 3
        fam.append((name, conf))
    return mu_check("C14", tier, replay, env={"VERIF_SB": str(K + 3)}, post=post, family=fam, cap_tours=(4000 if tier == "quick" else None),
                    extra_rule="; the barger restarts its program for ever; SleepBound: the victim's semaphore sleeps inside one lock call stay below K+3 (K=%d from the build)" % K)
