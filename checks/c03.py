"""C03: every hand-off is a happens-before edge under the DECLARED memory orders.
(1) O-hb: the runtime's vector-clock race detector, driven only by the order each atomic operation requests (C++20 release
    sequences; nothing credited to x86 or to the futex), runs over lock-step replays of Mu.tla / Counter.tla / Once.tla /
    Note.tla / Sem.tla configurations whose clients touch data around the hand-offs, and over random schedules.
(2) HB.tla: for each hand-off protocol TLC checks NoRace with the (kind, order) pairs OBSERVED at the call sites that play the
    releasing / intermediate / acquiring role in this build (extracted during the replays), and with the orders each ATM_*
    macro of the three atomic.h flavours requests (probed through the same compiler hooks)."""
import subprocess, shutil
from mulib import *
import l2lib, muconfigs, notelib
from muconfigs import cvl, mwt, wnl

MU_HB = {
    "hb_wr": dict(progs=[P("L", "set11", "U", "L", "get1", "U"), P("R", "get1", "RU", "L", "set10", "U")], NV=1),
    "hb_rrw": dict(progs=[P("R", "get1", "RU"), P("R", "get1", "RU"), P("L", "set11", "U")], NV=1),
    "hb_cv": dict(progs=[P("L", cvl(v=1), "get1", "U"), P("L", "set11", "S", "U")], NV=1),
    "hb_cvt": dict(progs=[P("L", cvl(v=1, dl=1), "get1", "U"), P("L", "set11", "S", "U")], NV=1, MaxNow=1),
    "hb_mw": dict(progs=[P("L", mwt(1), "get1", "U"), P("L", "set11", "U")], NV=1, conds=muconfigs.C1),
    "hb_wn": dict(progs=[P("L", wnl(v=1, dl=1), "get1", "U"), P("L", "set11", "U", "S")], NV=1, MaxNow=1),
    "hb_try": dict(progs=[P("L", "set11", "U"), P("T", "RT", "R", "get1", "RU")], NV=1),
    # sites that the configurations above did not reach (labels_unreached in the evidence): the re-acquisition of a timed-out conditional
    # wait (both of its final stores), the direct wake-up in wake_waiters (signal after the critical section), the debug caller's spinlock
    "hb_mwt": dict(progs=[P("L", mwt(1, dl=1), "get1", "U"), P("L", "set11", "U")], NV=1, conds=muconfigs.C1, MaxNow=1),
    "hb_cva": dict(progs=[P("L", cvl(v=1), "get1", "U"), P("L", "set11", "U", "S")], NV=1),
    # (the debug function reads mu->waiters without the spinlock when the word showed no waiters -- by design, DESIGN 9.2 -- so in this
    #  configuration a race is counted, not fatal: it is there for the orders requested at the debug caller's spinlock sites)
    "hb_db": dict(progs=[P("L", "set11", "U"), P("L", "get1", "U"), P("D")], NV=1, _env={"VERIF_SOFT": "O-hb"}),
}
MU_HB_T = {
    "hb_3": dict(progs=[P("L", "set11", "U"), P("R", "get1", "RU"), P("L", "set10", "U")], NV=1),
    "hb_rd_cv": dict(progs=[P("R", cvl(v=1, dl=1), "get1", "RU"), P("L", "set11", "B", "U")], NV=1, MaxNow=1),
}
# label -> role in a hand-off protocol (location, role)
ROLES = {
    "mutex word: critical section -> next holder": dict(
        rel=["ul_1_cas", "ul_3_cas", "us_2_cas", "us_3_cas", "us_5_cas", "mw_7_cas", "ta_9_st"],
        mid=["ls_3_cas", "ls_6_cas", "us_rs_cas", "us_ts_cas", "ww_2_cas", "ww_4_cas", "mw_5_cas", "db_3_cas", "db_6_cas", "db_4_st", "ta_3_cas"],
        acq=["lk_1_cas", "lk_3_cas", "ls_2_cas", "tl_1_cas", "tl_3_cas", "ta_2_cas"]),
    "waiter flag: waker -> sleeper": dict(rel=["us_6_st", "ww_5_st", "cw_14_st", "cs_f_st"], mid=[], acq=["ls_7_ld", "mw_8_ld", "cw_7_ld", "wn_6_ld"]),
    "mutex spinlock: queue fields": dict(rel=["ls_6_cas", "us_5_cas", "us_rs_cas", "mw_7_cas", "ww_4_cas", "ta_8b_st", "ta_9_st", "db_6_cas", "db_4_st"],
                                         mid=["lk_1_cas", "lk_3_cas", "ul_1_cas", "ul_3_cas", "tl_1_cas", "tl_3_cas", "ta_3_cas", "us_2_cas"],
                                         acq=["ls_3_cas", "us_3_cas", "us_ts_cas", "mw_5_cas", "ww_2_cas", "ta_2_cas", "db_3_cas"]),
    "cv spinlock: cv queue": dict(rel=["cw_6_st", "cw_15_st", "cs_4_st", "wn_5_st", "wn_12_st"], mid=[], acq=["cw_4_cas", "cw_11_cas", "cs_3_cas", "wn_3_cas", "wn_9_cas", "cs_1_ld"]),
    "counter value: zeroing add -> waiter": dict(rel=["ca_3_cas"], mid=["ca_3_cas"], acq=["cr_2_ld", "wr_2_ld", "cv_1_ld", "cw_1_ld", "ce_2_ld", "cd_2_ld"]),
    "once word: run -> return": dict(rel=["ro_9_st"], mid=[], acq=["ro_1_ld", "ro_2_ld", "ro_10_ld"]),
    "note notified: notify -> observation": dict(rel=["nc_2_st"], mid=[], acq=["nd_1_ld", "nc_1_ld", "nt_2_ld", "nd_3_ld", "ne_2_ld", "nq_3_ld", "sc_4_ld", "sc_8_ld"]),
    "pool spinlock: free list": dict(rel=["pn_3_st", "pf_3_st", "px_3_st"], mid=[], acq=["sp_2_cas"]),
    "semaphore count: V -> P": dict(rel=["v_cas"], mid=["v_cas", "p_cas"], acq=["p_cas"]),
}


def hb_tlc(name, rel, mid, acq):
    d = os.path.join(WORK, "hb")
    os.makedirs(d, exist_ok=True)
    shutil.copy(os.path.join(SPEC, "HB.tla"), os.path.join(d, "HB.tla"))
    f = lambda s: "{" + ", ".join('<<"%s", %d>>' % (k, mo) for (k, mo) in sorted(s)) + "}"
    open(os.path.join(d, "MC_HB.tla"), "w").write("---- MODULE MC_HB ----\nEXTENDS HB\nMCRel == %s\nMCMid == %s\nMCAcq == %s\n====\n" % (f(rel), f(mid), f(acq)))
    cfg = os.path.join(d, "MC_HB.cfg")
    open(cfg, "w").write("SPECIFICATION Spec\nCONSTANTS Rel <- MCRel Mid <- MCMid Acq <- MCAcq\nINVARIANT NoRace\nCHECK_DEADLOCK FALSE\n")
    return tlc_plain(os.path.join(d, "MC_HB.tla"), cfg, workers=1, cwd=d)


def probe_macros(flavour):
    out = os.path.join(WORK, "atm_probe_" + flavour)
    inc = [i for i in vbuild.includes(REPO, flavour) if "gcc_no_tls" not in i]
    cc = ["g++", "-std=c++11", "-x", "c++"] if flavour == "cpp" else ["gcc"]
    r = subprocess.run(cc + ["-O1", "-fno-inline", "-fsanitize=thread", "-w", "-c", os.path.join(VERIF, "drv", "atm_probe.c"), "-o", out + ".o"] + inc, stdout=subprocess.PIPE, stderr=subprocess.STDOUT, text=True)
    if r.returncode == 0:
        r = subprocess.run([("g++" if flavour == "cpp" else "gcc"), "-o", out, out + ".o"], stdout=subprocess.PIPE, stderr=subprocess.STDOUT, text=True)
    if r.returncode != 0:
        raise ToolFailure("building the atomic macro probe (%s) failed: %s" % (flavour, r.stdout[-1200:]))
    res = {}
    for l in subprocess.run([out], stdout=subprocess.PIPE, text=True).stdout.splitlines():
        m, k, mo, fmo = l.split()
        res.setdefault(m, []).append((k, int(mo), int(fmo)))
    return res


def main(tier, replay=None):
    run = Run("C03", tier, "model_checking")
    env = dict(os.environ, VERIF_PROP="C03", VERIF_HB="1")
    exe = build("h_mu")
    if replay:
        res = run_harness_env(exe, ["replay", replay, REPLAYS], env)
        for v in res["viols"]:
            run.violation("%s|%s|replay" % (v[0], v[1]), replay, v[5])
        return run.finish()
    run.cov["rule"] = ("(1) each case is one behaviour of a specification replayed in lock-step on the real code with the vector-clock race detector on: every plain access of nsync "
                       "(queue links, waiter fields, note fields) and of the client (cells written/read around lock, wait, notify, once, counter operations) must be ordered after the "
                       "last conflicting one by happens-before computed from the requested orders only; (2) HB.tla instantiated with the orders observed at each call site / requested by "
                       "each ATM_* macro of the gcc, C11 and C++11 atomic.h; non-trivial = contains a contended step")
    run.assumptions += ["sequentially consistent interleavings only; happens-before is the property's own criterion (no non-SC outcomes enumerated)",
                        "C++20 release-sequence rules (an RMW by any thread continues a release sequence; a relaxed store by another thread ends it)",
                        "the C++11 flavour is checked at the level of its atomic.h macros (the fiber harness links the C flavours)"]
    ords = {}

    def collect(res):
        for o in res["ords"]:
            label, kind, mo, fmo, n = o[0], o[1], int(o[2]), int(o[3]), int(o[4])
            ords.setdefault(label, set()).add((kind, mo, fmo))
    # ---- (1a) L1: Mu.tla configurations with client data
    prepare_spec()
    fam = list(MU_HB.items()) + (list(MU_HB_T.items()) if tier == "thorough" else [])
    results = run_family(run, exe, "C03", fam, env=env)
    for name, conf, out in results:
        collect(out["res"])
    for i, conf in enumerate(muconfigs.RANDOM["C01"][:2] + muconfigs.RANDOM["C04"][2:3]):
        res = run_harness_env(exe, ["random", str(300 if tier == "quick" else 10000), str(seed() + i), muconf.init_line(conf), REPLAYS], env)
        run.add("evaluations", 300 if tier == "quick" else 10000); run.add("distinct_nontrivial", res["stats"].get("nontrivial", 0))
        for v in res["viols"]:
            if v[0] in ("O-hb", "O-crash"):
                run.violation("%s|%s|random %d" % (v[0], v[1], i), v[4], v[5])
    # ---- (1b) L2: counter, once, note with client data (single-writer scenarios)
    exe2 = build("h_l2")
    import c10, c07
    l2 = [("Counter", c10.CONFIGS["q"][:3], lambda c: dict(V0=c.get("V0", 0), MaxNow=c.get("MaxNow", 0))),
          ("Once", c07.CONFIGS["q"][:5], lambda c: dict(MaxNow=c.get("MaxNow", 0), Nest=c.get("Nest", 0))),
          ("Note", [(n, dict(notelib.note_conf(notelib.CONF[n][2]), _c=notelib.CONF[n][2])) for n in ("n_chain", "n_sibling", "s_child", "x_hb")], lambda conf: notelib.consts_of(conf["_c"]))]
    for spec, cfgs, cf_ in l2:
        res2 = l2lib.run_family(run, exe2, spec, "C03", cfgs, cf_, set(), {"O-hb"}, env={"VERIF_HB": "1", "VERIF_HBDATA": "1"})
        for name, conf, out in res2:
            collect(out["res"])
    # ---- (1b') the waiter pool's spinlock orders the plain operations on the free list (Pool.tla replays)
    import c02
    c02.pool_part(run, prop="C03", env={"VERIF_HB": "1"}, on_res=collect, wanted_or={"O-hb", "O-crash"})
    # ---- (1c) L0: the futex semaphore
    import c12
    exes = build("h_sem")
    for ci, c in enumerate(c12.configs("quick")[1:3]):
        cfg = os.path.join(WORK, "tlc", "MC_Sem_hb%d.cfg" % ci)
        write_cfg(cfg, "SpecE", c, [], constraints=["InitPrint"], action_constraints=["Edge"])
        g, info = tlcgraph.run_tlc_graph(os.path.join(SPEC, "Sem.tla"), cfg, workers=4, cwd=SPEC)
        tours = tlcgraph.build_tours(g)
        sched = os.path.join(WORK, "tlc", "semhb_%d.sched" % ci)
        init = " ".join("%s=%s" % (k, int(v) if isinstance(v, bool) else v) for k, v in c.items())
        tlcgraph.write_schedule(sched, g, tours, init)
        res = run_harness(exes, [sched, REPLAYS])
        collect(res)
        run.add("states", info["distinct"]); run.add("transitions", len(g.edges)); run.add("traces_validated_against_impl", res["stats"].get("matched", 0))
    # ---- (2) HB.tla with the observed orders, per protocol
    run.cov["observed_orders"] = {l: sorted("%s:%d/%d" % x for x in s) for l, s in sorted(ords.items()) if not l.endswith("_l") and l not in ("c0", "d0", "Tick")}
    run.cov["protocols"] = []
    for pname, roles in ROLES.items():
        def pick(labels):
            s = set()
            for l in labels:
                for (k, mo, fmo) in ords.get(l, ()):
                    s.add(("st" if k == "st" else ("rmw" if k in ("cas", "rmw") else "ld"), mo))
            return s
        rel, mid, acq = pick(roles["rel"]), pick(roles["mid"]), pick(roles["acq"])
        unreached = [l for l in roles["rel"] + roles["acq"] if l not in ords]
        if not rel or not acq:
            run.note("protocol '%s': no releasing or acquiring site was reached by the replays (labels %s); not judged" % (pname, unreached))
            continue
        info = hb_tlc(pname, rel, mid, acq)
        run.add("hb_protocol_states", info["distinct"])
        run.cov["protocols"].append({"protocol": pname, "rel": sorted(rel), "mid": sorted(mid), "acq": sorted(acq), "verdict": "NoRace holds" if info["ok"] else "REFUTED", "labels_unreached": unreached})
        if not info["ok"]:
            if info["violated"] != "NoRace":
                raise ToolFailure("TLC failed on HB.tla: " + info["out"][-1000:])
            weak = [l for l in roles["rel"] if any(k2 != "ld" and mo not in (3, 4, 5) for (k2, mo, f) in ords.get(l, ()))] + \
                   [l for l in roles["acq"] if any(mo not in (1, 2, 4, 5) for (k2, mo, f) in ords.get(l, ()))] + \
                   [l for l in roles["mid"] if any(k2 == "st" for (k2, mo, f) in ords.get(l, ()))]
            rp = os.path.join(REPLAYS, "C03_%s.txt" % pname.split(":")[0].replace(" ", "_"))
            open(rp, "w").write("protocol %s\nrel %s\nmid %s\nacq %s\nweak sites %s\n" % (pname, sorted(rel), sorted(mid), sorted(acq), weak))
            run.violation("TLC|NoRace|%s|%s" % (pname, ",".join(weak)), rp,
                          "HB.tla refutes NoRace for the hand-off '%s' with the orders requested at its call sites in this build; too-weak sites: %s" % (pname, weak))
    # ---- (2b) the ATM_* macros of each atomic.h flavour
    for flavour in ("c", "c11", "cpp"):
        mac = probe_macros(flavour)
        rel = set(("st" if k == "st" else "rmw", mo) for m in ("STORE_REL", "CAS_REL", "CAS_RELACQ") for (k, mo, f) in mac.get(m, []))
        acq = set(("ld" if k == "ld" else "rmw", mo) for m in ("LOAD_ACQ", "CAS_ACQ", "CAS_RELACQ") for (k, mo, f) in mac.get(m, []))
        mid = set(("rmw", mo) for m in ("CAS", "CAS_ACQ", "CAS_REL", "CAS_RELACQ") for (k, mo, f) in mac.get(m, []))
        info = hb_tlc("macros " + flavour, rel, mid, acq)
        run.cov.setdefault("atomic_h", []).append({"flavour": flavour, "macros": {m: ["%s:%d/%d" % x for x in v] for m, v in mac.items()}, "verdict": "NoRace holds" if info["ok"] else "REFUTED"})
        if not info["ok"]:
            weak = [m for m in ("STORE_REL", "CAS_REL", "CAS_RELACQ") if any(mo not in (3, 4, 5) for (k, mo, f) in mac.get(m, []))] + \
                   [m for m in ("LOAD_ACQ", "CAS_ACQ", "CAS_RELACQ") if any(mo not in (1, 2, 4, 5) for (k, mo, f) in mac.get(m, []))]
            rp = os.path.join(REPLAYS, "C03_macros_%s.txt" % flavour)
            open(rp, "w").write("flavour %s\n%s\nweak %s\n" % (flavour, mac, weak))
            run.violation("TLC|NoRace|atomic.h %s|%s" % (flavour, ",".join(weak)), rp, "the %s atomic.h requests too weak an order for %s: HB.tla refutes NoRace for a release/acquire hand-off through these macros" % (flavour, weak))
    run.cov["exhaustive"] = True
    run.cov.setdefault("conformant", True)
    return run.finish()
