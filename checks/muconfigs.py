"""Configuration families of Mu.tla.  Each entry: name -> (conf, tags).  Tags say which properties'
scenario families the configuration belongs to and in which tier it runs ("q" quick, "t" thorough)."""
from muconf import P, op

C1 = [dict(f=1, v=1, eq=False, cell=1)]
# conditions: 1: f1(a) on cell1; 2: f1(a') same cell, eq-equivalent; 3: f1(b) on cell2; 4: f2(a) different function, cell1
CS = [dict(f=1, v=1, eq=True, cell=1), dict(f=1, v=2, eq=True, cell=1), dict(f=1, v=3, eq=True, cell=2), dict(f=2, v=1, eq=False, cell=1)]


def cvl(**kw):
    return op("cvloop", **kw)


def wnl(**kw):
    return op("waitnloop", **kw)


def mwt(c, **kw):
    return op("muwait", c=c, **kw)


FAM = {}


def add(name, props, tier, **conf):
    FAM[name] = (conf, set(props), tier)


# ---- plain locking (C01 C02 C14 C16) ----
add("lk_wr", ["C01", "C02"], "q", progs=[P("L", "U", "L", "U"), P("R", "RU", "L", "U")], NV=1)
add("lk_rr_w", ["C01", "C02"], "q", progs=[P("R", "RU", "R", "RU"), P("L", "U", "T")], NV=1)
add("lk_try", ["C01", "C02"], "q", progs=[P("L", "U", "RT"), P("T", "RT", "R", "RU")], NV=1)
add("lk_3", ["C01", "C02"], "q", progs=[P("L", "U"), P("R", "RU"), P("L", "U")], NV=1)
add("lk_3r", ["C01", "C02"], "t", progs=[P("R", "RU"), P("R", "RU"), P("L", "U")], NV=1)
add("lk_3b", ["C01", "C02"], "t", progs=[P("L", "U", "L", "U"), P("R", "RU"), P("L", "U")], NV=1)
add("lk_3c", ["C01", "C02"], "t", progs=[P("R", "RU", "R", "RU"), P("L", "U"), P("R", "RU")], NV=1)
add("lk_3t", ["C01", "C02"], "t", progs=[P("L", "U"), P("T", "RT"), P("R", "RU", "T")], NV=1)
add("lk_w3", ["C02"], "t", progs=[P("L", "U", "L", "U", "L", "U"), P("L", "U", "R", "RU", "L", "U")], NV=1)
# binary semaphore flavour (V sets the count to 1): link variant h_mub, Binary=TRUE in Mu.tla
add("bin_wr", ["C01", "C02"], "q", progs=[P("L", "U", "L", "U"), P("R", "RU", "L", "U")], NV=1, Binary=True)
add("bin_3", ["C02"], "q", progs=[P("L", "U"), P("R", "RU"), P("L", "U")], NV=1, Binary=True)
add("bin_cv", ["C01", "C04"], "q", progs=[P("L", cvl(v=1, dl=1), "U"), P("L", "set11", "S", "U")], NV=1, MaxNow=1, Binary=True)
add("bin_mw", ["C06", "C02"], "q", progs=[P("L", mwt(1, dl=1), "U"), P("L", "set11", "U")], NV=1, conds=C1, MaxNow=1, Binary=True)
# ---- condition variables (C01 C04 C05 C13) ----
add("cv_sig_in", ["C04", "C01"], "q", progs=[P("L", cvl(v=1), "U"), P("L", "set11", "S", "U")], NV=1)
add("cv_sig_after", ["C04", "C13"], "q", progs=[P("L", cvl(v=1), "U"), P("L", "set11", "U", "S")], NV=1)
add("cv_timed", ["C04", "C05", "C01"], "q", progs=[P("L", cvl(v=1, dl=1), "U"), P("L", "set11", "S", "U")], NV=1, MaxNow=1)
add("cv_timed_after", ["C04", "C05"], "q", progs=[P("L", cvl(v=1, dl=1), "U"), P("L", "set11", "U", "S")], NV=1, MaxNow=1)
add("cv_rd", ["C04", "C05", "C01"], "q", progs=[P("R", cvl(v=1, dl=1), "RU"), P("L", "set11", "S", "U")], NV=1, MaxNow=1)
add("cv_cancel", ["C05", "C04"], "q", progs=[P("L", cvl(v=1, cn=True), "U"), P("N")], NV=1)
add("cv_cancel_dl", ["C05"], "q", progs=[P("L", cvl(v=1, cn=True, dl=1), "U"), P("N")], NV=1, MaxNow=1)
add("cv_cancel_sig", ["C05", "C04"], "t", progs=[P("L", cvl(v=1, cn=True, dl=1), "U"), P("N", "L", "set11", "S", "U")], NV=1, MaxNow=1)
add("cv_2w_bcast", ["C04"], "t", progs=[P("L", cvl(v=1), "U"), P("L", cvl(v=1), "U"), P("L", "set11", "B", "U")], NV=1)
add("cv_2w_sig", ["C04"], "t", progs=[P("L", cvl(v=1), "U"), P("L", cvl(v=1, dl=1), "U"), P("L", "set11", "S", "U", "S")], NV=1, MaxNow=1)
add("cv_rw_sig", ["C04", "C01"], "t", progs=[P("R", cvl(v=1), "RU"), P("R", cvl(v=1), "RU"), P("L", "set11", "S", "U")], NV=1)
add("cv_contend", ["C01", "C04"], "t", progs=[P("L", cvl(v=1, dl=1), "U"), P("L", "set11", "S", "U"), P("L", "U")], NV=1, MaxNow=1)
# gated scenarios with 3-4 threads: a gate(k) starts a thread only once k threads are queued, which removes the
# interleavings of the set-up phase and keeps the part the property is about exhaustive
cvw = lambda **kw: op("cvwait", **kw)
add("cv_xfer_g", ["C01", "C04", "C02"], "t", progs=[P("L", cvl(v=1), "U"), P("G1", "L", "set11", "U", "S"), P("G1", "L", "U")], NV=1)
add("cv_rdsig_g", ["C01", "C04"], "t", progs=[P("L", cvw(), "U"), P("G1", "R", "S", "RU"), P("G1", "R", "RU")], NV=1)
add("cv_allf_g", ["C04", "C06"], "q", progs=[P("L", mwt(1), "U"), P("G1", "L", cvw(), "U"), P("G2", "R", "S", "RU")], NV=1, conds=C1)
add("cv_gen", ["C04", "C05"], "q", progs=[P("L", cvl(v=1, dl=1, x=9), "U"), P("L", "set11", "S", "U")], NV=1, MaxNow=1)
add("cv_gen2_g", ["C04"], "t", progs=[P("L", cvl(v=1, dl=1, x=9), "U"), P("G1", "L", cvl(v=1, dl=1, x=9), "U"), P("G2", "L", "set11", "U", "S")], NV=1, MaxNow=1)
# a native waiter with a generic-lock waiter (same mutex behind the client's own lock routines) queued behind it; broadcast with the mutex held,
# so wake_waiters considers moving both to the mutex queue; the first waiter then locks again while the generic one may hold the mutex (6.8)
add("cv_gen_mix_g", ["C04", "C02"], "t", progs=[P("L", cvw(), "U", "L", "U"), P("G1", "L", cvw(x=9), "U"), P("G2", "L", "B", "U")], NV=1)
add("mw_to_g", ["C05"], "q", progs=[P("L", mwt(1), "U"), P("G1", "L", mwt(1, dl=1), "U"), P("G2", "L", "set11", "U")], NV=1, conds=C1, MaxNow=1)
add("mw_eq3_g", ["C06"], "t", progs=[P("L", mwt(1), "U"), P("G1", "L", mwt(3), "U"), P("G2", "L", mwt(4), "U"), P("G3", "L", "set21", "U")], NV=2, conds=CS)
add("mw_3c_g", ["C06"], "t", progs=[P("L", mwt(1), "U"), P("G1", "L", mwt(2), "U"), P("G2", "L", mwt(3), "U"), P("G3", "L", "set21", "U", "L", "set11", "U")], NV=2, conds=CS)
# two writer-mode waiters with different conditions made true by one critical section; the first one woken leaves with unlock_without_wakeup
add("mw_uw2_g", ["C06"], "q", progs=[P("L", mwt(1), "UW"), P("G1", "L", mwt(3), "U"), P("G2", "L", "set11", "set21", "U")], NV=2, conds=CS)
# (too large for breadth-first search: behaviours from TLC's simulation mode, 4 workers x 150)
add("mw_hint4_g", ["C06"], "t", progs=[P("L", mwt(1), "U"), P("G1", "L", "U"), P("G1", "R", "RU"), P("G1", "L", "set11", mwt(3), "U")], NV=2, conds=CS, _sim=(150, 600))
# a waiter that is woken, finds its condition false again and waits a second time, with a waiter on another condition queued behind it
add("mw_rewait_g", ["C06"], "q", progs=[P("L", mwt(1), "U"), P("G1", "L", mwt(3), "U"), P("G2", "L", "set11", "U", "L", "set10", "set21", "U")], NV=2, conds=CS)
add("mw_rdall_g", ["C06"], "q", progs=[P("L", mwt(1), "U"), P("G1", "R", "RU", "R", "RU"), P("G1", "L", "set11", "U")], NV=1, conds=C1)
# ---- nsync_wait_n on a cv (C04 C11 C13) ----
add("wn_in", ["C04", "C11", "C13"], "q", progs=[P("L", wnl(v=1, dl=1), "U"), P("L", "set11", "S", "U")], NV=1, MaxNow=1)
add("wn_after", ["C04", "C11", "C13"], "q", progs=[P("L", wnl(v=1, dl=1), "U"), P("L", "set11", "U", "S")], NV=1, MaxNow=1)
add("wn_nodl", ["C04", "C11"], "q", progs=[P("L", wnl(v=1), "U"), P("L", "set11", "U", "B")], NV=1)
# contention on the cv's spinlock while registering: a signaller that does not hold the mutex / two reader-mode waiters
add("wn_spin", ["C04", "C11"], "q", progs=[P("L", wnl(v=1, dl=1), "U"), P("S")], NV=1, MaxNow=1)
add("wn_spin2", ["C04", "C11"], "q", progs=[P("L", cvw(dl=1), "U"), P("L", op("waitn", dl=1), "U")], NV=1, MaxNow=1)
add("cv_2rd", ["C04", "C01"], "q", progs=[P("R", cvw(dl=1), "RU"), P("R", cvw(dl=1), "RU")], NV=1, MaxNow=1)
# nsync_cv_signal wakes a reader-mode waiter and, with it, the nsync_wait_n waiter queued behind it, whose deadline can end the call at any point
add("wn_rd_g", ["C13", "C04", "C11"], "q", progs=[P("R", cvw(), "RU"), P("G1", "L", op("waitn", dl=1), "U"), P("G2", "S")], NV=1, MaxNow=1)
add("wn_rdl_g", ["C13", "C04", "C11"], "t", progs=[P("R", cvw(), "RU"), P("G1", "L", wnl(v=1, dl=1), "U"), P("G2", "S")], NV=1, MaxNow=1)
# nsync_wait_n on the cv AND the cancel note, with the caller's mutex: signal vs notify vs deadline
add("wn_note", ["C11", "C04", "C05", "C13"], "q", progs=[P("L", op("waitn", dl=1, cn=True), "U"), P("L", "S", "U"), P("N")], NV=1, MaxNow=1)
add("wn_note0", ["C11", "C05"], "q", progs=[P("N", "L", op("waitn", cn=True), "U"), P("L", op("waitn", cn=True), "U")], NV=1)
add("wn_mixed", ["C04", "C11", "C13"], "t", progs=[P("L", wnl(v=1, dl=1), "U"), P("L", cvl(v=1), "U"), P("L", "set11", "U", "B")], NV=1, MaxNow=1)
# ---- conditional critical sections (C06 C05 C01) ----
add("mw_1", ["C06"], "q", progs=[P("L", mwt(1), "U"), P("L", "set11", "U")], NV=1, conds=C1)
add("mw_timed", ["C06", "C05", "C01"], "q", progs=[P("L", mwt(1, dl=1), "U"), P("L", "set11", "U")], NV=1, conds=C1, MaxNow=1)
# the condition is made true and, before the timed-out waiter gets the lock back, false again
add("mw_flip", ["C05", "C06"], "q", progs=[P("L", mwt(1, dl=1), "U"), P("L", "set11", "U", "L", "set10", "U")], NV=1, conds=C1, MaxNow=1)
add("mw_rd", ["C06", "C05", "C01"], "q", progs=[P("R", mwt(1, dl=1), "RU"), P("L", "set11", "U")], NV=1, conds=C1, MaxNow=1)
add("mw_cancel", ["C05", "C06"], "q", progs=[P("L", mwt(1, cn=True), "U"), P("N")], NV=1, conds=C1)
# a reader-mode conditional wait ended by cancellation while other readers come and go
add("mw_cancel_rd", ["C01", "C02", "C05", "C06"], "q", progs=[P("R", mwt(1, cn=True), "RU"), P("N"), P("R", "RU", "R", "RU")], NV=1, conds=C1)
# a reader-mode conditional waiter that takes its read lock while a woken reader (the designated waker) has not run yet, and a writer that
# queues behind it: the waiter's release as last reader must wake the writer although a designated waker existed when it queued itself (6.10)
add("mw_rd_dw", ["C06", "C02"], "t", progs=[P("L", "U", "L", "U"), P("R", "RU"), P("R", mwt(1), "RU")], NV=1, conds=C1)
add("mw_ww", ["C06"], "q", progs=[P("L", mwt(1), "U"), P("L", "UW", "L", "set11", "U")], NV=1, conds=C1)
add("mw_2same", ["C06"], "t", progs=[P("L", mwt(1), "U"), P("L", mwt(1), "U"), P("L", "set11", "U")], NV=1, conds=CS)
add("mw_2eq", ["C06"], "t", progs=[P("L", mwt(1), "U"), P("R", mwt(2), "RU"), P("L", "set11", "U")], NV=1, conds=CS)
add("mw_2diff", ["C06"], "t", progs=[P("L", mwt(3), "U"), P("L", mwt(1, dl=1), "U"), P("L", "set11", "U", "L", "set21", "U")], NV=2, conds=CS, MaxNow=1)
add("mw_2fn", ["C06"], "t", progs=[P("L", mwt(4), "U"), P("R", mwt(1), "RU"), P("L", "set11", "U")], NV=1, conds=CS)
add("mw_cv", ["C06", "C04"], "t", progs=[P("L", mwt(1), "U"), P("L", cvl(v=1), "U"), P("L", "set11", "S", "U")], NV=1, conds=C1)
# ---- reference-count pattern (C13) ----
add("rc_2", ["C13"], "q", progs=[P("L", op("decref"), "U", op("freeiflast")), P("L", op("decref"), "U", op("freeiflast"))], NV=1)
add("rc_2r", ["C13"], "q", progs=[P("R", "RU", "L", op("decref"), "U", op("freeiflast")), P("L", op("decref"), "U", op("freeiflast"))], NV=1)
add("rc_3", ["C13"], "t", progs=[P("L", op("decref"), "U", op("freeiflast")), P("L", op("decref"), "U", op("freeiflast")), P("L", op("decref"), "U", op("freeiflast"))], NV=1)
# ---- debug state (C16) ----
add("db_1", ["C16", "C01", "C02"], "q", progs=[P("L", "U"), P("L", "U"), P("D")], NV=1)
add("db_2", ["C16"], "q", progs=[P("L", "U", "L", "U"), P("L", "D", "U"), ], NV=1)
add("db_3", ["C16"], "t", progs=[P("L", "U", "L", "U"), P("R", "RU"), P("D", "D")], NV=1)
add("db_dc", ["C16"], "q", progs=[P("L", cvl(v=1), "U"), P("L", "set11", "S", "U"), P("DC")], NV=1)
add("db_dc2", ["C16"], "q", progs=[P("L", cvl(v=1, dl=1), "U"), P("DC", "L", "set11", "B", "U", "DC")], NV=1, MaxNow=1)
add("db_cv", ["C16"], "t", progs=[P("L", cvl(v=1), "U"), P("L", "set11", "S", "U"), P("D")], NV=1)
# ---- bounded overtaking (C14): victim + one barger that loops for ever; K is the build's LONG_WAIT_THRESHOLD (set by the check) ----
add("st_ww", ["C14"], "q", progs=[P("L", "U"), P("L", "U")], NV=1, Loopers=[2])
add("st_wr", ["C14"], "t", progs=[P("L", "U"), P("R", "RU")], NV=1, Loopers=[2])
add("st_rw", ["C14"], "t", progs=[P("R", "RU"), P("L", "U")], NV=1, Loopers=[2])
add("st_wt", ["C14"], "t", progs=[P("L", "U"), P("T")], NV=1, Loopers=[2])


# richer programs explored under random / priority-based schedules with the oracles on (no TLC): 3-5 threads
RANDOM = {
    "C01": [dict(progs=[P("L", cvw(), "U"), P("G1", "R", "S", "RU"), P("G1", "R", "RU"), P("G1", "R", "RU", "L", "U")], NV=1),
            dict(progs=[P("L", cvl(v=1), "U"), P("G1", "L", "set11", "U", "S"), P("G1", "L", "U"), P("G1", "R", "RU")], NV=1),
            dict(progs=[P("L", "U", "R", "RU", "T"), P("R", "RU", "L", "U", "RT"), P("L", cvl(v=1, dl=1), "U"), P("L", "set11", "U", "S")], NV=1),
            dict(progs=[P("R", cvw(dl=1), "RU"), P("R", "S", "RU", "R", "RU"), P("L", "U", "R", "RU"), P("R", "RU", "L", "B", "U")], NV=1),
            dict(progs=[P("L", mwt(1, dl=1), "U"), P("R", mwt(1, dl=1), "RU"), P("L", "set11", "U"), P("R", "RU", "T")], NV=1, conds=C1)],
    "C02": [dict(progs=[P("L", "U", "L", "U"), P("R", "RU", "R", "RU"), P("L", "U", "T"), P("R", "RU", "RT"), P("T", "L", "U")], NV=1),
            dict(progs=[P("L", "U", "L", "U"), P("R", "RU"), P("R", mwt(1), "RU")], NV=1, conds=C1, _runs=80000),
            # lockers on a mutex that is also used through the generic cv interface (6.8: the designated-waker hint left set)
            dict(progs=[P("L", cvw(), "U", "L", "U"), P("G1", "L", cvw(x=9), "U"), P("G2", "L", "B", "U"), P("G2", "L", "U", "R", "RU")], NV=1),
            dict(progs=[P("L", "U"), P("R", "RU"), P("R", "RU"), P("L", "U", "L", "U"), P("RT", "R", "RU")], NV=1)],
    "C04": [dict(progs=[P("L", mwt(1), "U"), P("G1", "L", cvw(), "U"), P("G2", "R", "S", "RU"), P("G2", "R", "RU")], NV=1, conds=C1),
            dict(progs=[P("R", cvw(), "RU"), P("G1", "L", cvw(), "U"), P("G2", "R", cvw(), "RU"), P("G3", "L", "S", "U")], NV=1),
            dict(progs=[P("L", cvw(), "U"), P("G1", "R", cvw(), "RU"), P("G2", "R", cvw(), "RU"), P("G3", "L", "S", "U", "L", "B", "U")], NV=1),
            dict(progs=[P("L", cvl(v=1), "U"), P("R", cvl(v=1), "RU"), P("R", cvl(v=1, dl=2), "RU"), P("L", "set11", "U", "B")], NV=1),
            dict(progs=[P("L", cvl(v=1), "U"), P("G1", "L", "set11", "U", "S"), P("G1", "L", "U")], NV=1),
            dict(progs=[P("L", cvw(), "U"), P("G1", "R", "S", "RU"), P("G1", "R", "RU"), P("G1", "R", "RU", "L", "U")], NV=1),
            dict(progs=[P("L", cvl(v=1, dl=1), "U"), P("L", wnl(v=1, dl=1), "U"), P("L", "set11", "B", "U"), P("L", "U")], NV=1),
            dict(progs=[P("L", cvl(v=1, dl=1, x=9), "U"), P("L", cvl(v=1, dl=2, x=9), "U"), P("L", "set11", "U", "S")], NV=1, MaxNow=2),
            # native and generic-lock waiters of the same mutex on one cv (6.8)
            dict(progs=[P("L", cvw(), "U", "L", "U"), P("G1", "L", cvw(x=9), "U"), P("G2", "L", "B", "U")], NV=1),
            dict(progs=[P("R", cvl(v=1), "RU"), P("L", cvl(v=1, x=9), "U", "L", "U"), P("L", cvl(v=1, dl=1), "U"), P("L", "set11", "B", "U", "L", "U")], NV=1, MaxNow=1)],
    "C05": [dict(progs=[P("L", cvl(v=1, dl=1, cn=True), "U"), P("R", mwt(1, dl=2, cn=True), "RU"), P("N"), P("L", "set11", "S", "U")], NV=1, conds=C1),
            dict(progs=[P("L", mwt(1), "U"), P("L", mwt(1, dl=1), "U"), P("L", "set11", "U"), P("L", "U")], NV=1, conds=C1)],
    "C06": [dict(progs=[P("L", mwt(1), "U"), P("G1", "R", "RU"), P("G1", "L", "U", "L", "set11", "U")], NV=1, conds=C1),
            # 6.10 (configuration mw_rd_dw, breadth-first in the thorough tier: 1.7 million states): 1 schedule in 20 000 reaches it
            dict(progs=[P("L", "U", "L", "U"), P("R", "RU"), P("R", mwt(1), "RU")], NV=1, conds=C1, _runs=80000),
            dict(progs=[P("L", mwt(1), "U"), P("G1", "R", "RU"), P("G1", "R", "RU", "L", "set11", "U"), P("G1", "L", "U")], NV=1, conds=C1),
            dict(progs=[P("L", mwt(1), "U"), P("G1", "L", mwt(3), "U"), P("G2", "L", mwt(4), "U"), P("G3", "L", "set21", "U")], NV=2, conds=CS),
            dict(progs=[P("L", mwt(3), "U"), P("G1", "L", mwt(1), "U"), P("G2", "R", mwt(4), "RU"), P("G3", "L", "set11", "U")], NV=2, conds=CS),
            dict(progs=[P("L", mwt(1), "U"), P("L", mwt(2, dl=1), "U"), P("R", mwt(3), "RU"), P("L", "set11", "U", "L", "set21", "U")], NV=2, conds=CS),
            dict(progs=[P("L", mwt(4), "U"), P("R", mwt(1), "RU"), P("L", cvl(v=1), "U"), P("L", "UW", "L", "set11", "B", "U")], NV=1, conds=CS),
            # a conditional waiter; a writer with a reader queued behind it; a barging writer that makes the first condition true and then
            # waits itself on a condition that stays false (it legitimately sleeps for ever); the reader's unlock must find the first waiter
            dict(progs=[P("L", mwt(1), "U"), P("G1", "L", "U"), P("G1", "R", "RU"), P("G1", "L", "set11", mwt(3), "U")], NV=2, conds=CS)],
    "C11": [dict(progs=[P("L", cvl(v=1), "U"), P("L", wnl(v=1, dl=1), "U"), P("G2", "L", "set11", "U", "B")], NV=1, MaxNow=1),
            dict(progs=[P("L", wnl(v=1), "U"), P("L", wnl(v=1, dl=1), "U"), P("G1", "L", "set11", "U", "S", "S")], NV=1, MaxNow=1),
            dict(progs=[P("L", wnl(v=1, dl=2), "U"), P("L", cvl(v=1, dl=1), "U"), P("L", "set11", "S", "U", "B"), P("L", "U")], NV=1, MaxNow=2)],
    "C13": [dict(progs=[P("L", wnl(v=1, dl=1), "U"), P("L", wnl(v=1, dl=2), "U"), P("L", "set11", "U", "B"), P("L", "U", "S")], NV=1),
            dict(progs=[P("L", op("decref"), "U", op("freeiflast"))] * 4, NV=1)],
    "C16": [dict(progs=[P("L", "U", "L", "U"), P("R", "RU", "L", "U"), P("L", cvl(v=1, dl=1), "U"), P("D", "D", "L", "set11", "S", "U"), P("D", "D")], NV=1),
            dict(progs=[P("L", cvl(v=1), "U"), P("L", cvl(v=1, dl=1), "U"), P("DC", "DC", "DC"), P("L", "set11", "B", "U", "DC")], NV=1)],
}


# cancellable waits against a concurrent nsync_note_notify with the note's own locking interleaved at atomic-operation
# granularity (the L1 specification treats note operations as single steps; here only the oracles judge)
FINE = {
    "C05": [dict(progs=[P("L", cvl(v=1, cn=True), "U"), P("N")], NV=1),
            dict(progs=[P("L", mwt(1, cn=True), "U"), P("N"), P("L", "U")], NV=1, conds=C1),
            dict(progs=[P("L", cvl(v=1, cn=True, dl=2), "U"), P("R", cvl(v=1, cn=True), "RU"), P("N")], NV=1)],
    "C08": [dict(progs=[P("L", cvl(v=1, cn=True), "U"), P("N")], NV=1),
            dict(progs=[P("L", cvl(v=1, cn=True), "U"), P("L", mwt(1, cn=True), "U"), P("N")], NV=1, conds=C1)],
}


def family(prop, tier):
    out = []
    for name, (conf, props, t) in FAM.items():
        if prop in props and (t == "q" or tier == "thorough"):
            out.append((name, conf))
    return out
