from notelib import note_check


def main(tier, replay=None):
    return note_check("C08", tier, replay, {"NotifiedHasCause", "DescendantsNotified", "ExpiryIsMin", "NoStuck"}, {"O-lin", "O-prog", "O-ret"})
