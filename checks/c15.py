"""C15: every deadline value is handled.  The allowed outcome per (entry point kind, deadline class, event happened) is
enumerated by TLC from Time.tla (Outcome); each case runs in its own process against the real library (C and C++ builds
made by the repository's CMake from the current tree) on the real kernel."""
import subprocess, concurrent.futures as cf
from common import *

ENTRIES = {"cv": "cv", "cvg": "cv", "mu": "pred", "cvn": "cv", "mun": "pred", "notenew": "obj", "notewait": "obj", "counterwait": "obj", "waitn": "obj"}
CLASSES = ["zero", "neg_ns", "neg_s", "neg_big", "past", "future", "max1", "none"]


def outcome_table():
    cfg = os.path.join(WORK, "tlc", "Time_out.cfg")
    os.makedirs(os.path.dirname(cfg), exist_ok=True)
    open(cfg, "w").write("SPECIFICATION OutSpec\nCONSTANTS R = 10 SMax = 0 GridS = {0} GridN = {0} GridU = {0}\nCHECK_DEADLOCK FALSE\n")
    info = tlc_plain(os.path.join(SPEC, "Time.tla"), cfg, workers=1)
    tab = {}
    for l in info["out"].splitlines():
        if l.startswith('"['):
            rec = json.loads(json.loads(l))
            if rec[0] == "O":
                tab[(rec[1], rec[2], bool(rec[3]))] = set(rec[4])
    if len(tab) < 40:
        raise ToolFailure("TLC produced no outcome table from Time.tla: " + info["out"][-800:])
    return tab


def build_libs():
    cm = os.path.join(WORK, "cm")
    r = subprocess.run("cmake -G Ninja -S %s -B %s -DNSYNC_ENABLE_TESTS=OFF >/dev/null 2>&1 && cmake --build %s 2>&1 | tail -3" % (REPO, cm, cm), shell=True, stdout=subprocess.PIPE, stderr=subprocess.STDOUT, text=True)
    if not (os.path.exists(os.path.join(cm, "libnsync.a")) and os.path.exists(os.path.join(cm, "libnsync_cpp.a"))):
        raise ToolFailure("building the libraries with the repository's CMake failed: " + r.stdout[-1500:])
    exes = {}
    src = os.path.join(VERIF, "drv", "c15_driver.c")
    pub = ["-I", os.path.join(REPO, "public")]
    r = subprocess.run(["gcc", "-O1", "-w", "-o", os.path.join(cm, "drv_c"), src, os.path.join(cm, "libnsync.a"), "-lpthread"] + pub, stdout=subprocess.PIPE, stderr=subprocess.STDOUT, text=True)
    if r.returncode:
        raise ToolFailure("building the C15 driver (C) failed: " + r.stdout[-1500:])
    r = subprocess.run(["g++", "-std=c++11", "-x", "c++", "-O1", "-w", "-DNSYNC_USE_CPP11_TIMEPOINT", "-DNSYNC_ATOMIC_CPP11", "-o", os.path.join(cm, "drv_cpp"), src,
                        "-x", "none", os.path.join(cm, "libnsync_cpp.a"), "-lpthread"] + pub, stdout=subprocess.PIPE, stderr=subprocess.STDOUT, text=True)
    if r.returncode:
        raise ToolFailure("building the C15 driver (C++) failed: " + r.stdout[-1500:])
    return {"c": os.path.join(cm, "drv_c"), "cpp": os.path.join(cm, "drv_cpp")}


def one(args):
    exe, lang, entry, cls, happened = args
    try:
        r = subprocess.run([exe, entry, cls, "1" if happened else "0"], stdout=subprocess.PIPE, stderr=subprocess.PIPE, text=True, timeout=12)
    except subprocess.TimeoutExpired:
        return args, "hang"
    if r.returncode < 0:
        return args, ("hang" if -r.returncode == 14 else "crash_signal_%d" % -r.returncode)
    if r.returncode != 0:
        return args, "driver_error_%d" % r.returncode
    return args, r.stdout.strip()


def main(tier, replay=None):
    run = Run("C15", tier, "exploration")
    tab = outcome_table()
    exes = build_libs()
    cases = []
    for lang, exe in exes.items():
        for entry, kind in ENTRIES.items():
            for cls in CLASSES:
                for happened in (False, True):
                    exp = tab[(kind, cls, happened)]
                    if "blocks" in exp:
                        exp = {"woken"}          # the driver makes the event happen 60 ms later: the call must then return, not crash
                    if kind == "cv" and happened:
                        continue                  # a cv wait has no predicate: "already happened" is the same case as not happened
                    cases.append((exe, lang, entry, cls, happened, exp))
    if replay and replay.endswith(".sched"):
        # a schedule of the schedule-controlled part (below)
        import mulib
        rexe, renv = replay_target(replay, "h_mu")
        res = mulib.run_harness_env(rexe, ["replay", replay, REPLAYS], dict(os.environ, VERIF_PROP="C15", **renv))
        for v in res["viols"]:
            run.violation("%s|%s|replay" % (v[0], v[1]), replay, v[5])
        return run.finish()
    if replay:
        cases = [c for c in cases if "%s:%s:%s:%d" % (c[1], c[2], c[3], c[4]) == open(replay).read().strip()]
    reps = 1 if tier == "quick" else 5
    n = 0
    with cf.ThreadPoolExecutor(12) as ex:
        for rep in range(reps):
            for args, got in ex.map(one, [c[:5] for c in cases]):
                n += 1
                exp = [c[5] for c in cases if c[:5] == args][0]
                if got not in exp:
                    # timing on a loaded machine can make one run late: a failure counts only if it repeats twice in a row, alone
                    again = [one(args)[1] for _ in range(2)]
                    if all(g not in exp for g in again):
                        key = "%s:%s:%s:%d" % (args[1], args[2], args[3], args[4])
                        rp = os.path.join(REPLAYS, "C15_%s.case" % key.replace(":", "_"))
                        open(rp, "w").write(key + "\n")
                        run.violation("O-crash|%s|%s|%s" % (args[2], args[3], args[1]), rp,
                                      "%s build, entry %s, deadline class %s, event %s: observed %s (then %s), allowed by Time.tla: %s" % (args[1], args[2], args[3], "happened" if args[4] else "not happened", got, again, sorted(exp)))
                    else:
                        run.note("one-off timing outlier, not repeated: %s %s %s -> %s" % (args[1], args[2], args[3], got))
    run.cov["evaluations"] = n
    if not replay:
        # The same statement under schedule control: whether a timed call crashes, hangs or times out early can depend on WHERE its deadline
        # falls relative to a concurrent notify / signal / unlock (a few instructions wide), which the real kernel cannot aim at.  Generated
        # programs (tools/genprog.py) whose waits carry past, near and no deadlines run on the real note.c / wait.c / sem_wait.c / cv.c /
        # mu_wait.c under the deterministic runtime, the clock ticking at every possible point; a touched dead record (O-mem) is the crash.
        import l2lib, mulib
        l2lib.generated_notes(run, "C15", {"O-crash", "O-mem", "O-ret", "O-prog"})
        mulib.prepare_spec()
        mulib.generated_phase(run, build("h_mu"), "C15", tier, dict(os.environ, VERIF_PROP="C15"))
    run.cov["distinct_nontrivial"] = len([c for c in cases if c[3] not in ("future",)])
    run.cov["rule"] = ("a case = (build C/C++, timed entry point, deadline class, event already happened or not), run in its own process on the real kernel with a watchdog; "
                       "allowed outcomes enumerated by TLC from Time.tla's Outcome table; non-trivial = a deadline other than now+d (zero, before the epoch, just passed, max-1, none)")
    run.cov["samples"] = [{"build": c[1], "entry": c[2], "deadline": c[3], "happened": c[4], "allowed": sorted(c[5])} for c in cases[:4] + cases[-2:]]
    run.cov["outcome_table_rows"] = len(tab)
    run.assumptions += ["the kernel and the real clock are not modelled: this check explores inputs on the real platform; 'promptly' = within 1 s, 'not early' = not before now+150 ms (2 ms slack)",
                        "Time.tla contributes the oracle (outcome table), not an exploration of schedules; the schedule-controlled part (generated programs under the deterministic "
                        "runtime, virtual clock 0..2 ticking at arbitrary points) samples schedules, it does not enumerate them"]
    return run.finish()
