from notelib import *


def main(tier, replay=None):
    def extra(run, exe):
        # the other constructor: nsync_counter_new, failing and succeeding, with the counter under test in use
        cfgs = [("a_counter", dict(progs=[[lop("new", a=2, d=2, x=1), lop("new", a=2, d=2, x=0), lop("add", a=-1, d=-1, x=0)], [lop("new", a=0, d=0, x=1), lop("wait", d=0, x=0)]], init={"V0": 1}, V0=1))]
        run_family(run, exe, "Counter", "C19", cfgs, lambda c: dict(V0=c.get("V0", 0), MaxNow=0), {"NoStuck"}, {"O-crash", "O-prog", "O-lin"})
    return note_check("C19", tier, replay, {"NoStuck", "NoUseAfterFree"}, {"O-crash", "O-prog", "O-mem", "O-lin"},
                      rule_extra="; C19: the programs build small note trees and counters, and each allocation performed by nsync_note_new / nsync_counter_new is failed in turn "
                                 "(the `new` operation with x=1): the constructor must return NULL, the projected state must equal the specification's unchanged state, "
                                 "and the rest of the behaviour must replay", extra=extra)
