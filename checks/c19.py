from notelib import note_check


def main(tier, replay=None):
    return note_check("C19", tier, replay, {"NoStuck", "NoUseAfterFree"}, {"O-crash", "O-prog", "O-mem", "O-lin"},
                      rule_extra="; C19: the programs build small note trees and each allocation performed by nsync_note_new is failed in turn (the `new` operation with x=1): "
                                 "the constructor must return NULL, the projected tree must equal the specification's unchanged state, and the rest of the behaviour must replay")
