"""C11: nsync_wait_n reports a ready object or a real timeout, and cleans up.
cv objects with the caller's mutex: Mu.tla (wn_* configurations, L1, real mu.c/cv.c/wait.c); note and counter objects:
Note.tla / Counter.tla (the nsync_wait_n path of nsync_note_wait / nsync_counter_wait, L2); leftover registrations are
exposed by dead-record tracking (an object made ready after the call returned touches the dead record)."""
from mulib import *
import l2lib, notelib, c10


def l2_part(run, exe_unused, results, env):
    exe2 = build("h_l2")
    A = c10.A; W = c10.W
    ccfgs = [("c11_cw", dict(progs=[[W(1), W()], [A(-1)]], init={"V0": 1}, V0=1, MaxNow=1)),
             ("c11_c0", dict(progs=[[W(1)], [W()], [A(-1), A(0)]], init={"V0": 1}, V0=1, MaxNow=1))]
    l2lib.run_family(run, exe2, "Counter", "C11", ccfgs, lambda c: dict(V0=c.get("V0", 0), MaxNow=c.get("MaxNow", 0)), {"NoStuck", "QueuedAreWaiting"}, {"O-ret", "O-mem", "O-prog", "O-lin"})
    N = notelib
    ncfgs = [("c11_nw", dict(tree=N.T((1, 0, N.NONE)), NN=1, MaxNow=1, progs=[[N.WAIT(1, 1), N.WAIT(1)], [N.NOTIFY(1)]])),
             ("c11_ndl", dict(tree=N.T((1, 0, 1)), NN=1, MaxNow=1, progs=[[N.WAIT(1)], [N.WAIT(1, 1), N.POLL(1)]])),
             ("c11_past", dict(tree=N.T((1, 0, N.NONE)), NN=1, MaxNow=0, progs=[[N.WAIT(1, -1), N.WAIT(1)], [N.NOTIFY(1)]]))]
    ncfgs += [(n, c) for n, (props, t, c) in N.CONF.items() if "C11" in props and (t == "q" or run.tier == "thorough")]
    ncf = [(n, dict(N.note_conf(c), _c=c)) for n, c in ncfgs]
    l2lib.run_family(run, exe2, "Note", "C11", ncf, lambda conf: N.consts_of(conf["_c"]), {"NoStuck", "RetHonest", "NoDeadRecord", "MutexKept"}, {"O-ret", "O-mem", "O-prog", "O-lin"})
    exer = build("h_l2r")
    l2lib.random_runs(run, exer, "Counter", ccfgs, 1000 if run.tier == "quick" else 30000, "C11", {"O-ret", "O-mem", "O-prog", "O-lin"})
    l2lib.random_runs(run, exer, "Note", ncf, 1000 if run.tier == "quick" else 30000, "C11", {"O-ret", "O-mem", "O-prog", "O-lin"})

    l2lib.generated_notes(run, "C11", {"O-ret", "O-mem", "O-prog", "O-lin"})


def main(tier, replay=None):
    return mu_check("C11", tier, replay, post=l2_part,
                    extra_rule="; objects: condition variables (with the caller's mutex, L1), counters (L2, one object per call) and notes (L2, 1..5 notes per call: "
                               "on-stack records for up to 4 objects and the heap bookkeeping path for 5; notes and a counter mixed in one call: configurations x_*); a cv mixed with other kinds in one call is not modelled",
                    extra_assume=["a single nsync_wait_n call waits on objects of one kind in the specifications (cv | counter | 1..5 notes); kinds are not mixed within one call"])
