"""C13: releasing or waking never touches memory its owner may already have reclaimed.
L1 (Mu.tla): reference-count pattern with NoTouchAfterFree + arena poisoning; cv wakers vs nsync_wait_n records.
L2 (Counter.tla, Note.tla): the counter reaching zero / a note being notified against waits that a deadline can end at any
moment: the on-stack record of a wait that has returned is marked dead and every hooked access to it is an O-mem failure."""
from mulib import *
import l2lib, notelib, c10


def l2_part(run, exe_unused, results, env):
    exe2 = build("h_l2")
    A = c10.A; W = c10.W
    ccfgs = [("c13_c2w", dict(progs=[[W(1)], [W(1)], [A(-1)]], init={"V0": 1}, V0=1, MaxNow=1)),
             ("c13_cw", dict(progs=[[W(1), W(1)], [A(-1)]], init={"V0": 1}, V0=1, MaxNow=1)),
             # the waiter learns that the counter is zero and, being its last user, frees it while the decrementer may still be inside add
             ("c13_free", dict(progs=[[W(), l2lib.lop("free", d=0)], [A(-1)]], init={"V0": 1}, V0=1, MaxNow=0)),
             ("c13_free2", dict(progs=[[W(), l2lib.lop("free", d=0)], [A(-1)], [A(-1)]], init={"V0": 2}, V0=2, MaxNow=0))]
    l2lib.run_family(run, exe2, "Counter", "C13", ccfgs, lambda c: dict(V0=c.get("V0", 0), MaxNow=c.get("MaxNow", 0)), {"NoUseAfterFree"}, {"O-mem"})
    N = notelib
    ncfgs = [("c13_nw", dict(tree=N.T((1, 0, N.NONE)), NN=1, MaxNow=1, progs=[[N.WAIT(1, 1), N.POLL(1)], [N.NOTIFY(1)]])),
             ("c13_n2w", dict(tree=N.CHAIN2, NN=2, MaxNow=1, progs=[[N.WAIT(2, 1)], [N.WAIT(2, 1)], [N.NOTIFY(1)]]))]
    # ... and nsync_sem_wait_with_cancel_ (sem_wait.c), the sleep of a cancellable cv / mu wait, step by step: its on-stack record
    # against notifiers, the note's own expiry and the caller's deadline (configurations s_* of notelib)
    ncfgs += [(n, c) for n, (props, t, c) in N.CONF.items() if "C13" in props and (t == "q" or run.tier == "thorough")]
    ncf = [(n, dict(N.note_conf(c), _c=c)) for n, c in ncfgs]
    l2lib.run_family(run, exe2, "Note", "C13", ncf, lambda conf: N.consts_of(conf["_c"]), {"NoDeadRecord"}, {"O-mem"})
    exer = build("h_l2r")
    l2lib.random_runs(run, exer, "Counter", ccfgs, 2000 if run.tier == "quick" else 50000, "C13", {"O-mem"})
    l2lib.random_runs(run, exer, "Note", ncf, 2000 if run.tier == "quick" else 50000, "C13", {"O-mem"})

    l2lib.generated_notes(run, "C13", {"O-mem"})


def main(tier, replay=None):
    return mu_check("C13", tier, replay, post=l2_part,
                    extra_rule="; L2 part: timed nsync_counter_wait / nsync_note_wait calls against the zeroing add / the notify, with the deadline able to expire at every point; "
                               "the record of a returned wait is tracked as dead memory")
