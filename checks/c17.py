"""C17: the list primitives implement a sequence.  Dll.tla (pointer-level transcription + abstract
sequences) model-checked to a fixpoint; every transition replayed on the real dll.c."""
import os
from common import *


def sched_from_hists(path, hists, init, start=1):
    n = 0
    with open(path, "w") as f:
        for i, h in enumerate(hists):
            f.write("T %d %s\n" % (start + i, init))
            for label, obs in h:
                f.write("S 1 %s %s\n" % (label.replace('"', ''), tlcgraph.fmt_obs(obs)))
                n += 1
            f.write("E\n")
    return n


def main(tier, replay=None):
    run = Run("C17", tier, "model_checking")
    exe = build("h_dll")
    if replay:
        res = run_harness(exe, [replay, REPLAYS])
        for v in res["viols"]:
            run.violation("%s|%s" % (v[0], v[1]), replay, v[5])
        return run.finish()
    run.cov["rule"] = ("each case is a sequence of dll operations from the all-singletons state; the exhaustive part takes every "
                       "transition of TLC's complete state graph (fixpoint => all operation sequences over the universe); the "
                       "simulation part is random longer sequences over 8 elements; non-trivial = at least 3 operations or a splice")
    run.assumptions += ["C preconditions respected (element not already in the target list; splice on distinct rings)",
                        "the same_condition rings of mu.c use splice_after and manual unlinking; only splice_after is covered here"]
    sizes = [(5, 2)] if tier == "quick" else [(5, 2), (6, 2), (4, 3)]
    for ne, nl in sizes:
        cfg = os.path.join(WORK, "tlc", "MC_Dll.cfg")
        write_cfg(cfg, "Spec", dict(NE=ne, NL=nl), ["DllOK"], constraints=["InitPrint"], action_constraints=["Edge"], extra="VIEW View\n")
        g, info = tlcgraph.run_tlc_graph(os.path.join(SPEC, "Dll.tla"), cfg, workers=8, cwd=SPEC)
        if not info["ok"]:
            raise ToolFailure("TLC on Dll.tla: " + "\n".join(info["log"][-30:]))
        tours = tlcgraph.build_tours(g)
        sched = os.path.join(WORK, "tlc", "dll.sched")
        init = "NE=%d NL=%d" % (ne, nl)
        steps = tlcgraph.write_schedule(sched, g, tours, init, obs_fmt=lambda o: tlcgraph.fmt_obs(o))
        # labels come out of ToString with quotes: strip them
        txt = open(sched).read().replace('"', '')
        open(sched, "w").write(txt)
        res = run_harness(exe, [sched, REPLAYS])
        st = res["stats"]
        run.add("states", info["distinct"]); run.add("transitions", len(g.edges))
        run.add("traces_validated_against_impl", st.get("matched", 0)); run.add("evaluations", st.get("tours", 0))
        run.add("distinct_nontrivial", st.get("nontrivial", 0)); run.add("transitions_replayed", steps)
        run.cov.setdefault("configs", []).append({"constants": init, "states": info["distinct"], "transitions": len(g.edges), "tours": len(tours), "matched": st.get("matched", 0), "exhaustive": True})
        if tours:
            t = max(tours, key=len)
            run.sample({"config": init, "ops": [g.edges[e][3].replace('"', '') for e in t][:40]})
        if res["mismatch"]:
            run.note("DIVERGENCE (raw pointers differ while traversals agree): " + res["mismatch"]); run.cov["conformant"] = False
        for v in res["viols"]:
            run.violation("%s|%s" % (v[0], v[1]), v[4], v[5])
        os.unlink(sched)
    run.cov["exhaustive"] = True
    # random longer sequences, 8 elements
    num, depth = (40, 40) if tier == "quick" else (400, 80)
    cfg = os.path.join(WORK, "tlc", "Sim_Dll.cfg")
    write_cfg(cfg, "SpecS", dict(NE=8, NL=2, D=depth), ["DllOK"], constraints=["Emit"])
    hists, sinfo = tlcgraph.run_tlc_sim(os.path.join(SPEC, "DllSim.tla"), cfg, num=num, depth=depth + 1, workers=4, seed=seed(), cwd=SPEC)
    if not hists:
        raise ToolFailure("TLC simulation of DllSim produced no behaviours: " + "\n".join(sinfo["log"][-20:]))
    sched = os.path.join(WORK, "tlc", "dllsim.sched")
    steps = sched_from_hists(sched, hists, "NE=8 NL=2")
    res = run_harness(exe, [sched, REPLAYS])
    st = res["stats"]
    run.add("traces_validated_against_impl", st.get("matched", 0)); run.add("evaluations", st.get("tours", 0))
    run.add("distinct_nontrivial", st.get("nontrivial", 0)); run.add("transitions_replayed", steps)
    run.cov["simulation"] = {"constants": "NE=8 NL=2", "behaviours": len(hists), "depth": depth, "matched": st.get("matched", 0)}
    if res["mismatch"]:
        run.note("DIVERGENCE: " + res["mismatch"]); run.cov["conformant"] = False
    for v in res["viols"]:
        run.violation("%s|%s" % (v[0], v[1]), v[4], v[5])
    os.unlink(sched)
    run.cov.setdefault("conformant", True)
    return run.finish()
