"""C07: nsync_run_once runs its function exactly once and nobody returns early (Once.tla over the ideal lock/cv;
lock-step replay on the real once.c; random schedules with the real mu.c/cv.c underneath)."""
from l2lib import *

O = lambda kind, which=0: lop("once", a=kind, b=which)
CONFIGS = {
    "q": [("o_bb", dict(progs=[[O(0)], [O(1)]], MaxNow=1)),
          ("o_bs", dict(progs=[[O(0)], [O(2)]], MaxNow=1)),
          ("o_ss", dict(progs=[[O(2)], [O(3)]], MaxNow=0)),
          ("o_twice", dict(progs=[[O(0), O(2)], [O(3), O(1)]], MaxNow=1)),
          ("o_shared", dict(progs=[[O(2, 0)], [O(0, 0)], [O(0, 1)]], MaxNow=1)),
          # the function of once 0 itself calls nsync_run_once on once 1, which shares the once_sync slot (nested initialisation)
          ("o_nest", dict(progs=[[O(0)], [O(0, 1)]], MaxNow=1, Nest=1, init={"Nest": 1})),
          ("o_nest_s", dict(progs=[[O(1)], [O(2)]], MaxNow=1, Nest=3, init={"Nest": 3})),
          ("o_slow", dict(progs=[[O(2, 0)], [O(0, 0)]], MaxNow=6)),
          # four callers, both once words: behaviours from TLC's simulation mode, every generated transition replayed once
          ("o_big", dict(progs=[[O(0), O(2, 1)], [O(1), O(3, 1)], [O(2)], [O(3), O(0, 1)]], MaxNow=1, _sim=(12, 500)))],
    "t": [("o_3", dict(progs=[[O(0)], [O(1)], [O(2)]], MaxNow=1)),
          ("o_shared2", dict(progs=[[O(0, 0)], [O(1, 0)], [O(1, 1), O(2, 0)]], MaxNow=1)),
          ("o_4", dict(progs=[[O(0)], [O(2)], [O(1)], [O(3)]], MaxNow=1))],
}


def main(tier, replay=None):
    run = Run("C07", tier, "model_checking")
    exe = build("h_l2")
    if replay:
        rexe, renv = replay_target(replay, "h_l2")
        res = mulib.run_harness_env(rexe, ["replay", replay, REPLAYS], dict(os.environ, VERIF_PROP="C07", **renv))
        for v in res["viols"]:
            run.violation("%s|%s|replay" % (v[0], v[1]), replay, v[5])
        return run.finish()
    run.cov["rule"] = ("each case is one behaviour of Once.tla (labels = atomic operations on the once word, lock/cv operations, spin delays, start and end of the "
                       "once function) replayed in lock-step on the real once.c over the ideal lock and cv; tours take every transition; O-once counts function runs "
                       "and checks completion immediately after each call returns; non-trivial = contains a failed CAS, a lock hand-over, a cv wait or a spin")
    run.cov["exhaustive"] = True
    run.assumptions += ["ideal lock and condition variable for once_sync (what C01/C02/C04 establish for nsync_mu/nsync_cv at L1); the real ones underneath in the random-schedule part",
                        "2-4 callers mixing the four entry points; two once words forced onto one once_sync slot; clock 0..6",
                        "SC interleavings; TLC, SANY, gcc -fsanitize=thread instrumentation, /verif/rt trusted"]
    cfgs = CONFIGS["q"] + (CONFIGS["t"] if tier == "thorough" else [])
    run_family(run, exe, "Once", "C07", cfgs, lambda c: dict(MaxNow=c.get("MaxNow", 0), Nest=c.get("Nest", 0)),
               {"AtMostOnce", "NobodyEarly", "DoneMeansRan", "NoStuck"}, {"O-once", "O-prog"})
    exer = build("h_l2r")
    random_runs(run, exer, "Once", cfgs + CONFIGS["t"][:1], 300 if tier == "quick" else 60000, "C07", {"O-once", "O-prog"})
    # code -> spec: recorded executions of the same programs validated against OnceTrace.tla
    trace_validate(run, exe, "Once", [c for c in cfgs if not c[1].get("_sim")], lambda c: dict(MaxNow=c.get("MaxNow", 0), Nest=c.get("Nest", 0)),
                   ["AtMostOnce", "NobodyEarly", "DoneMeansRan"], "C07")
    run.cov.setdefault("conformant", True)
    return run.finish()
