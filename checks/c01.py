"""C01: writer exclusion / reader sharing.
L1: Mu.tla (Excl in every state, O-excl on the code).  L2 addition: a caller that hands its mutex to nsync_wait_n together with several
objects must hold it again on return, whichever object made the call return and wherever registration stopped (Note.tla nwaitn with
the client mutex: MutexKept; on the code O-ret "returned without holding the caller's mutex" and the ideal lock's ownership checks):
a caller that wrongly believes it holds the mutex is a second writer."""
from mulib import *
import l2lib, notelib


def l2_part(run, exe_unused, results, env):
    exe2 = build("h_l2")
    N = notelib
    ncf = [(n, dict(N.note_conf(c), _c=c)) for n, (props, t, c) in N.CONF.items() if "C01" in props and (t == "q" or run.tier == "thorough")]
    l2lib.run_family(run, exe2, "Note", "C01", ncf, lambda conf: N.consts_of(conf["_c"]), {"MutexKept"}, {"O-ret", "O-excl"})
    exer = build("h_l2r")
    l2lib.random_runs(run, exer, "Note", ncf, 1000 if run.tier == "quick" else 30000, "C01", {"O-ret", "O-excl"})


def main(tier, replay=None):
    return mu_check("C01", tier, replay, post=l2_part,
                    extra_rule="; L2 part: nsync_wait_n given the caller's mutex and two objects (notes, counter) in Note.tla: the mutex is held again on every return")
