from mulib import mu_check


def main(tier, replay=None):
    return mu_check("C01", tier, replay)
