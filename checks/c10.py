"""C10: the counter is atomic and its waiters are released exactly at zero (Counter.tla over the ideal lock;
lock-step replay on the real counter.c/wait.c; random schedules on the all-real link variant)."""
from l2lib import *


def A(d):
    return lop("add", a=d, d=d)


W = lambda dl=0: lop("wait", dl=dl, d=0)  # noqa
VAL = lop("value", d=0)
CONFIGS = {
    "q": [("c_2dec_w", dict(progs=[[A(-1)], [A(-1)], [W()]], init={"V0": 2}, V0=2)),
          ("c_dec_wt", dict(progs=[[A(-1), VAL], [W(1), VAL]], init={"V0": 1}, V0=1, MaxNow=1)),
          ("c_updown", dict(progs=[[A(1), A(-1), A(-1)], [W(), A(0)]], init={"V0": 1}, V0=1)),
          ("c_up0", dict(progs=[[A(1), A(-1)], [VAL, VAL]], init={"V0": 0}, V0=0)),       # raised from zero (the ASSERT that nobody has waited yet)
          ("c_zero", dict(progs=[[W(), W(1)], [VAL, A(0)]], init={"V0": 0}, V0=0, MaxNow=1)),
          ("c_2w", dict(progs=[[A(-1)], [W()], [W(1)]], init={"V0": 1}, V0=1, MaxNow=1)),
          # four threads: behaviours from TLC's simulation mode, every generated transition replayed once
          ("c_big", dict(progs=[[A(-1), VAL], [A(-1), W()], [A(-1), W(1)], [W(), VAL]], init={"V0": 3}, V0=3, MaxNow=1, _sim=(12, 400)))],
    "t": [
          ("c_3dec", dict(progs=[[A(-1), VAL], [A(-1)], [A(-1), W()]], init={"V0": 3}, V0=3))],
}


def main(tier, replay=None):
    run = Run("C10", tier, "model_checking")
    exe = build("h_l2")
    if replay:
        rexe, renv = replay_target(replay, "h_l2")
        res = mulib.run_harness_env(rexe, ["replay", replay, REPLAYS], dict(os.environ, VERIF_PROP="C10", **renv))
        for v in res["viols"]:
            run.violation("%s|%s|replay" % (v[0], v[1]), replay, v[5])
        return run.finish()
    run.cov["rule"] = ("each case is one behaviour of Counter.tla (one label per lock operation / atomic operation / semaphore call) replayed in lock-step "
                       "on the real counter.c + wait.c over the ideal lock; tours take every transition; O-lin checks every returned value against a "
                       "reference integer in the order the adds took effect, O-ret every wait result; non-trivial = contains a failed CAS, a lock hand-over or a sleep")
    run.cov["exhaustive"] = True
    run.assumptions += ["ideal lock for counter_mu (what C01/C02 establish for nsync_mu at L1)", "2-3 threads, <= 3 operations each, clock 0..1",
                        "SC interleavings; TLC, SANY, gcc -fsanitize=thread instrumentation, /verif/rt trusted"]
    cfgs = CONFIGS["q"] + (CONFIGS["t"] if tier == "thorough" else [])
    run_family(run, exe, "Counter", "C10", cfgs, lambda c: dict(V0=c.get("V0", 0), MaxNow=c.get("MaxNow", 0)),
               {"NeverNegative", "WaitersOnlyIfNonZero", "QueuedAreWaiting", "NoStuck"}, {"O-lin", "O-ret", "O-prog", "O-mem"})
    # integration: the same programs with the real mu.c underneath, random schedules, oracles only
    exer = build("h_l2r")
    random_runs(run, exer, "Counter", cfgs, 300 if tier == "quick" else 60000, "C10", {"O-lin", "O-ret", "O-prog", "O-mem"})
    # code -> spec: recorded executions of the same programs validated against CounterTrace.tla
    trace_validate(run, exe, "Counter", [c for c in cfgs if not c[1].get("_sim")], lambda c: dict(V0=c.get("V0", 0), MaxNow=c.get("MaxNow", 0)),
                   ["NeverNegative", "WaitersOnlyIfNonZero", "QueuedAreWaiting", "NoUseAfterFree"], "C10")
    run.cov.setdefault("conformant", True)
    return run.finish()
