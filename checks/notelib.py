"""Note.tla configurations and the shared driver of C08 / C09 / C19."""
from l2lib import *

NONE = 9999
NEW = lambda a, b=0, dl=NONE, x=0: lop("new", a=a, b=b, dl=dl, x=x, objs=[])
NOTIFY = lambda a: lop("notify", a=a, x=0, objs=[])
POLL = lambda a: lop("poll", a=a, x=0, objs=[])
FREE = lambda a: lop("free", a=a, x=0, objs=[])
WAIT = lambda a, dl=NONE: lop("wait", a=a, dl=dl, x=0, objs=[])
SWC = lambda a, dl=NONE: lop("swc", a=a, dl=dl, x=0, objs=[])      # nsync_sem_wait_with_cancel_ (own waiter, dl, note a; 0 = no note)
SEMV = lambda t: lop("semv", a=t, x=0, objs=[])                   # nsync_mu_semaphore_v on thread t's waiter semaphore
CADD = lambda d: lop("cadd", a=d, x=0, objs=[])                     # nsync_counter_add on the counter that is object 9 of "waitn"
WAITN = lambda objs, dl=NONE: lop("waitn", a=int("".join(str(o) for o in objs)), dl=dl, x=0, objs=list(objs))
WAITNM = lambda objs, dl=NONE: lop("waitn", a=int("".join(str(o) for o in objs)), dl=dl, x=2, objs=list(objs))   # ... passing the client's mutex (held)
MLOCK = lop("mlock", x=0, objs=[])
MUNLOCK = lop("munlock", x=0, objs=[])


def T(*es):
    return [dict(id=i, par=p, dl=d) for (i, p, d) in es]


CHAIN3 = T((1, 0, NONE), (2, 1, NONE), (3, 2, NONE))
CHAIN2 = T((1, 0, NONE), (2, 1, NONE))
FORK = T((1, 0, NONE), (2, 1, NONE), (3, 1, NONE))
# name -> (props, tier, conf)
CONF = {
    "n_chain": (["C08"], "q", dict(tree=CHAIN3, NN=3, progs=[[NOTIFY(1)], [POLL(3), POLL(3)], [WAIT(3)]])),
    "n_deadline": (["C08"], "q", dict(tree=T((1, 0, 1), (2, 1, NONE)), NN=2, MaxNow=1, progs=[[WAIT(2)], [POLL(1), POLL(2)]])),
    "n_dl_child": (["C08"], "q", dict(tree=T((1, 0, 2), (2, 1, 1), (3, 1, NONE)), NN=3, MaxNow=2, progs=[[WAIT(3, 1)], [POLL(2), POLL(1)]])),
    "n_2notify": (["C08", "C09"], "q", dict(tree=CHAIN2, NN=2, progs=[[NOTIFY(1)], [NOTIFY(2)], [POLL(2), POLL(1)]])),
    "n_sibling": (["C08"], "q", dict(tree=FORK, NN=3, progs=[[NOTIFY(2)], [POLL(3), POLL(1), WAIT(2)]])),
    "n_new": (["C08", "C09"], "q", dict(tree=T((1, 0, NONE)), NN=2, MaxNow=2, progs=[[NEW(2, 1, 2), POLL(2), WAIT(2, 1)], [NOTIFY(1)]])),
    "n_born": (["C08"], "q", dict(tree=T((1, 0, NONE)), NN=3, MaxNow=0, progs=[[NOTIFY(1), NEW(2, 1), POLL(2)], [NEW(3, 1, -1), POLL(3)]])),
    "n_free_leaf": (["C09"], "q", dict(tree=CHAIN2, NN=2, progs=[[FREE(2)], [NOTIFY(1)]])),
    "n_free_mid": (["C09", "C08"], "q", dict(tree=CHAIN3, NN=3, progs=[[NOTIFY(1)], [FREE(2)], [POLL(3)]])),
    "n_adopt": (["C09", "C08"], "q", dict(tree=CHAIN3, NN=3, progs=[[FREE(2), NOTIFY(1)], [POLL(3), POLL(3)]])),
    "n_2notify_free": (["C09"], "q", dict(tree=CHAIN2, NN=2, progs=[[NOTIFY(2)], [NOTIFY(2)], [POLL(1), FREE(1)]])),
    "n_par_free": (["C09"], "q", dict(tree=CHAIN2, NN=2, progs=[[NOTIFY(1), FREE(1)], [NOTIFY(2)]])),
    "n_par_free3": (["C09"], "q", dict(tree=CHAIN3, NN=3, progs=[[NOTIFY(2), FREE(2)], [NOTIFY(3)], [POLL(1)]])),
    "n_free3": (["C09"], "q", dict(tree=CHAIN3, NN=3, progs=[[NOTIFY(1), FREE(1)], [FREE(3)], [FREE(2)]])),
    "n_new_free": (["C09"], "q", dict(tree=T((1, 0, NONE)), NN=2, progs=[[NEW(2, 1), FREE(2)], [NOTIFY(1)], [POLL(1)]])),
    "n_wait_free": (["C09", "C13"], "t", dict(tree=CHAIN2, NN=2, MaxNow=1, progs=[[WAIT(2, 1), FREE(2)], [NOTIFY(1)]])),
    "n_tree4": (["C08", "C09"], "t", dict(tree=T((1, 0, NONE), (2, 1, NONE), (3, 2, NONE), (4, 1, NONE)), NN=4, progs=[[NOTIFY(1)], [NOTIFY(3), FREE(3)], [WAIT(4), POLL(2)]])),
    # nsync_wait_n over several notes: stack records (count <= 4) and the heap path (count = 5)
    "w_2": (["C11", "C13"], "q", dict(tree=T((1, 0, NONE), (2, 0, NONE)), NN=2, MaxNow=1, progs=[[WAITN([1, 2], 1), POLL(2)], [NOTIFY(2)]])),
    "w_2b": (["C11"], "q", dict(tree=T((1, 0, NONE), (2, 1, NONE)), NN=2, MaxNow=0, progs=[[WAITN([2, 1])], [NOTIFY(1)]])),
    "w_3dl": (["C11", "C13"], "q", dict(tree=T((1, 0, NONE), (2, 0, 1), (3, 0, NONE)), NN=3, MaxNow=1, progs=[[WAITN([1, 2, 3])], [NOTIFY(3)]])),
    "w_5heap": (["C11", "C13"], "q", dict(tree=T((1, 0, NONE), (2, 0, NONE), (3, 0, NONE), (4, 0, NONE), (5, 0, NONE)), NN=5, MaxNow=1,
                                          progs=[[WAITN([1, 2, 3, 4, 5], 1)], [NOTIFY(4)]])),
    "w_ready": (["C11"], "q", dict(tree=T((1, 0, NONE), (2, 0, NONE), (3, 0, -1)), NN=3, MaxNow=0, progs=[[NOTIFY(2), WAITN([1, 2, 3]), WAITN([1, 3]), WAITN([1], -1)]])),
    "w_2callers": (["C11"], "t", dict(tree=T((1, 0, NONE), (2, 0, NONE)), NN=2, MaxNow=1, progs=[[WAITN([1, 2], 1)], [WAITN([2, 1])], [NOTIFY(1), NOTIFY(2)]])),
    # nsync_sem_wait_with_cancel_ (sem_wait.c): the sleep of a cv / mu waiter that has a cancel note
    "s_exp": (["C13", "C05", "C08"], "q", dict(tree=T((1, 0, 1)), NN=1, MaxNow=1, progs=[[SWC(1)], [NOTIFY(1)]])),
    "s_2w": (["C13", "C05", "C08"], "q", dict(tree=T((1, 0, 1)), NN=1, MaxNow=1, progs=[[SWC(1)], [SWC(1), POLL(1)]])),
    "s_v": (["C13", "C05"], "q", dict(tree=T((1, 0, NONE)), NN=1, MaxNow=1, progs=[[SWC(1, 1)], [SEMV(1)], [NOTIFY(1)]])),
    "s_nonote": (["C05"], "q", dict(tree=T((1, 0, NONE)), NN=1, MaxNow=1, progs=[[SWC(0, 1), SWC(0, 1)], [SEMV(1)]])),
    "s_child": (["C13", "C05", "C08"], "q", dict(tree=CHAIN2, NN=2, MaxNow=0, progs=[[SWC(2), SWC(2)], [NOTIFY(1)]])),
    "s_nearer": (["C13", "C05"], "q", dict(tree=T((1, 0, 2)), NN=1, MaxNow=2, progs=[[SWC(1, 1), POLL(1)], [NOTIFY(1)]])),
    "s_3w": (["C13", "C05"], "t", dict(tree=T((1, 0, 1)), NN=1, MaxNow=1, progs=[[SWC(1)], [SWC(1)], [SWC(1, 1)], [NOTIFY(1)]])),
    # a timed wait on a note whose notifier has to wait for a concurrently disconnecting child (WAIT_FOR_NO_CHILDREN drops the lock)
    "s_par_disc": (["C13", "C05", "C08"], "q", dict(tree=CHAIN2, NN=2, MaxNow=1, progs=[[NOTIFY(1)], [NOTIFY(2)], [SWC(1, 1)]])),
    "w_par_disc": (["C13", "C11", "C08"], "q", dict(tree=CHAIN2, NN=2, MaxNow=1, progs=[[NOTIFY(1)], [NOTIFY(2)], [WAIT(1, 1)]])),
    # nsync_wait_n over objects of different kinds: notes and a counter (object 9) in one call
    "x_nc": (["C11", "C13"], "q", dict(tree=T((1, 0, NONE)), NN=1, CV0=1, MaxNow=1, progs=[[WAITN([1, 9], 1), POLL(1)], [CADD(-1)], [NOTIFY(1)]])),
    "x_cn": (["C11", "C13"], "q", dict(tree=T((1, 0, NONE)), NN=1, CV0=1, MaxNow=0, progs=[[WAITN([9, 1])], [NOTIFY(1), CADD(-1)]])),
    "x_2w": (["C11", "C13"], "t", dict(tree=T((1, 0, 1)), NN=1, CV0=2, MaxNow=1, progs=[[WAITN([9, 1])], [WAITN([1, 9], 1)], [CADD(-1), CADD(-1)]])),
    "x_zero": (["C11"], "q", dict(tree=T((1, 0, NONE), (2, 0, NONE)), NN=2, CV0=0, MaxNow=0, progs=[[WAITN([1, 9, 2]), WAITN([9])], [NOTIFY(2)]])),
    # larger scenarios, behaviours from TLC's simulation mode (every generated transition replayed once)
    "big_a": (["C08", "C09"], "q", dict(tree=T((1, 0, NONE), (2, 1, NONE), (3, 2, 2), (4, 1, NONE)), NN=5, MaxNow=2, _sim=(12, 500),
                                        progs=[[NOTIFY(1)], [WAIT(3, 1), POLL(4)], [NEW(5, 2, 2), WAIT(5), FREE(5)], [SWC(4, 1), POLL(2)]])),
    "big_b": (["C08", "C11", "C13"], "q", dict(tree=T((1, 0, NONE), (2, 1, NONE), (3, 1, 1), (4, 0, NONE)), NN=4, CV0=2, MaxNow=1, _sim=(12, 500),
                                               progs=[[WAITN([2, 9, 4], 1), POLL(3)], [CADD(-1), NOTIFY(4)], [WAITN([9, 3]), CADD(-1)], [SWC(2, 1), NOTIFY(1)]])),
    # nsync_wait_n given the caller's mutex and several objects: released only once everything is registered, always held again on return
    "m_2": (["C11", "C01"], "q", dict(tree=T((1, 0, NONE), (2, 0, NONE)), NN=2, MaxNow=1, progs=[[MLOCK, WAITNM([1, 2], 1), MUNLOCK], [NOTIFY(1)], [MLOCK, MUNLOCK]])),
    "m_c": (["C11", "C01"], "q", dict(tree=T((1, 0, NONE)), NN=1, CV0=1, MaxNow=0, progs=[[MLOCK, WAITNM([1, 9]), MUNLOCK], [NOTIFY(1), CADD(-1)], [MLOCK, MUNLOCK]])),
    "x_up": (["C11"], "q", dict(tree=T((1, 0, NONE)), NN=1, CV0=0, MaxNow=0, progs=[[CADD(1), CADD(-1)], [POLL(1)]])),
    "x_hb": (["C03"], "q", dict(tree=T((1, 0, NONE)), NN=1, CV0=1, MaxNow=0, progs=[[WAITN([9, 1])], [CADD(-1)]])),
    # C19: allocation failure at every constructor call of tree-building scenarios
    "a_seq": (["C19"], "q", dict(tree=T((1, 0, NONE)), NN=3, progs=[[NEW(2, 1, NONE, 1), NEW(2, 1), NEW(3, 2, 5, 1), NEW(3, 2, 5), NOTIFY(1), POLL(3)]])),
    "a_root": (["C19"], "q", dict(tree=T(), NN=2, progs=[[NEW(1, 0, NONE, 1), NEW(1, 0, 3), NEW(2, 1, 7, 1), NEW(2, 1, 7), POLL(2)]], MaxNow=0)),
    "a_sibling": (["C19"], "q", dict(tree=T((1, 0, NONE)), NN=3, progs=[[NEW(2, 1, NONE, 1), NEW(2, 1), POLL(2)], [NEW(3, 1), NOTIFY(1)]])),
    # the constructor of a note whose deadline has already passed notifies it on the spot (note.c:176 -> notify -> WAIT_FOR_NO_CHILDREN): any
    # further allocation made on that path is failed in turn too (x = 2, 3); with the real mutex underneath in the random-schedule part
    "a_past": (["C19"], "q", dict(tree=T(), NN=3, MaxNow=0, progs=[[NEW(1, 0, -1, 2), NEW(2, 1, -1, 3), POLL(1)], [NEW(3, 0, -1, 2), POLL(3)]])),
    "a_waiter": (["C19"], "q", dict(tree=T((1, 0, NONE)), NN=2, progs=[[WAIT(1)], [NEW(2, 1, NONE, 1), NOTIFY(1)]])),
}


def note_conf(c):
    d = dict(progs=c["progs"], _sim=c.get("_sim"), init={"NN": c["NN"], "CV0": c.get("CV0", 0), "tree": ",".join("%d.%d.%d" % (e["id"], e["par"], 0 if e["dl"] == NONE else e["dl"]) for e in c["tree"]) or "-"},
             defs={"MCTree0": c["tree"]})
    return d


def consts_of(c):
    return dict(NN=c["NN"], MaxNow=c.get("MaxNow", 0), CV0=c.get("CV0", 0))


def note_check(prop, tier, replay, wanted_inv, wanted_or, rule_extra="", extra=None):
    run = Run(prop, tier, "fault_enumeration" if prop == "C19" else "model_checking")
    exe = build("h_l2")
    if replay:
        rexe, renv = replay_target(replay, "h_l2")
        res = mulib.run_harness_env(rexe, ["replay", replay, REPLAYS], dict(os.environ, VERIF_PROP=prop, **renv))
        for v in res["viols"]:
            run.violation("%s|%s|replay" % (v[0], v[1]), replay, v[5])
        if not res["viols"] and res["stats"].get("matched") == 1 and "_TLC" not in replay and any(x in replay for x in wanted_inv):
            run.violation("TLC|replay", replay, "the real code follows the specification's counterexample in lock-step to the end")
        return run.finish()
    run.cov["rule"] = ("each case is one behaviour of Note.tla (labels = lock operations on note_mu incl. try-lock and the conditional wait, atomic operations on "
                       "notified / waiter records, semaphore calls, client steps) replayed in lock-step on the real note.c + wait.c + sem_wait.c over the ideal lock; "
                       "tours take every transition of each configuration; arena poisoning (O-mem), global progress (O-prog) and observation-history oracles (O-lin) run "
                       "at every step; non-trivial = contains a lock hand-over, a failed try-lock, a conditional wait or a sleep" + rule_extra)
    run.cov["exhaustive"] = True
    run.assumptions += ["ideal lock with try-lock and conditional wait for note_mu (what C01/C02/C06 establish for nsync_mu at L1); the real mu.c underneath in the random-schedule part",
                        "trees of up to 4 notes, depth <= 3, 1-3 threads with 1-6 operations; clock 0..2; client contract: a note is freed only by the thread that is its last user",
                        "SC interleavings; TLC, SANY, gcc -fsanitize=thread instrumentation, /verif/rt trusted"]
    cfgs = [(name, dict(note_conf(c), _c=c)) for name, (props, t, c) in CONF.items() if prop in props and (t == "q" or tier == "thorough")]
    run_family(run, exe, "Note", prop, cfgs, lambda conf: consts_of(conf["_c"]), wanted_inv, wanted_or)
    if extra:
        extra(run, exe)
    if prop == "C08":
        # waiters of a note that are cv / mu waiters (nsync_sem_wait_with_cancel_): real mu.c, cv.c, note.c, fine-grained
        mulib.fine_runs(run, build("h_mu"), prop, tier, dict(os.environ, VERIF_PROP=prop))
    exer = build("h_l2r")
    # (the two configurations that exhibit the recorded findings are explored in lock-step only, where the specification's
    #  taint says which window a failure belongs to; under free-running random schedules a hang could not be attributed)
    random_runs(run, exer, "Note", [(n, c) for n, c in cfgs if n not in ("n_free_mid", "n_2notify_free", "n_tree4", "n_free3")], 300 if tier == "quick" else 60000, prop, wanted_or)
    if prop != "C19":
        generated_notes(run, prop, wanted_or)
    run.cov.setdefault("conformant", True)
    return run.finish()
