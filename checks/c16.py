"""C16: the debug-state functions only observe (a: Mu.tla with a debug caller) and stay inside the caller's buffer
(b: Emit.tla, the bounded emit buffer as a pure function, evaluated by TLC on the texts the real functions produce)."""
import subprocess, shutil
from mulib import *


def buffer_part(run, exe_unused, results, env):
    import c15
    exes = c15.build_libs()          # libnsync.a / libnsync_cpp.a by the repository's CMake, from the current tree
    cm = os.path.dirname(exes["c"])
    d = os.path.join(WORK, "emit")
    os.makedirs(d, exist_ok=True)
    shutil.copy(os.path.join(SPEC, "Emit.tla"), os.path.join(d, "Emit.tla"))
    # the law, for all texts up to length 6 over a 3-letter alphabet and all buffer sizes
    open(os.path.join(d, "MC_law.tla"), "w").write("---- MODULE MC_law ----\nEXTENDS Emit\nMCTexts == <<>>\n====\n")
    open(os.path.join(d, "MC_law.cfg"), "w").write("SPECIFICATION Spec\nCONSTANTS DOT = 3 MaxLen = 6 MaxN = 0 Texts <- MCTexts\nINVARIANT Law\nCHECK_DEADLOCK FALSE\n")
    info = tlc_plain(os.path.join(d, "MC_law.tla"), os.path.join(d, "MC_law.cfg"), workers=4, cwd=d)
    if not info["ok"]:
        raise ToolFailure("TLC refutes the buffer law on Emit.tla (spec error): " + info["out"][-1200:])
    run.cov["emit_law_states"] = info["distinct"]
    total = 0
    for lang in ("c", "cpp"):
        drv = os.path.join(cm, "drv16_" + lang)
        src = os.path.join(VERIF, "drv", "c16_driver.c")
        if lang == "c":
            cmd = ["gcc", "-O1", "-w", "-o", drv, src, os.path.join(cm, "libnsync.a"), "-lpthread", "-I", os.path.join(REPO, "public")]
        else:
            cmd = ["g++", "-std=c++11", "-x", "c++", "-O1", "-w", "-DNSYNC_USE_CPP11_TIMEPOINT", "-DNSYNC_ATOMIC_CPP11", "-o", drv, src, "-x", "none", os.path.join(cm, "libnsync_cpp.a"), "-lpthread", "-I", os.path.join(REPO, "public")]
        r = subprocess.run(cmd, stdout=subprocess.PIPE, stderr=subprocess.STDOUT, text=True)
        if r.returncode:
            raise ToolFailure("building the C16 driver failed: " + r.stdout[-1200:])
        try:
            r = subprocess.run([drv], stdout=subprocess.PIPE, stderr=subprocess.PIPE, text=True, timeout=90)
        except subprocess.TimeoutExpired:
            run.violation("O-prog|debug_state|%s" % lang, "-", "the debug-state driver hung (%s build)" % lang)
            continue
        if r.returncode != 0:
            run.violation("O-crash|debug_state|%s" % lang, "-", "the debug-state driver died with status %d (%s build)" % (r.returncode, lang))
            continue
        texts = {}; bufs = {}
        for l in r.stdout.splitlines():
            p = l.split()
            if p[0] == "T":
                texts[int(p[1])] = [int(x) for x in p[3:]]
            elif p[0] == "B":
                bufs[(int(p[1]), int(p[2]))] = (int(p[3]), [int(x) for x in p[4:]])
        ids = sorted(texts)
        tl = "<<" + ", ".join("<<" + ", ".join(str(c) for c in texts[i]) + ">>" for i in ids) + ">>"
        open(os.path.join(d, "MC_eval.tla"), "w").write("---- MODULE MC_eval ----\nEXTENDS Emit\nMCTexts == %s\n====\n" % tl)
        open(os.path.join(d, "MC_eval.cfg"), "w").write("SPECIFICATION EvalSpec\nCONSTANTS DOT = 46 MaxLen = 0 MaxN = 80 Texts <- MCTexts\nCONSTRAINT EmitAll\nCHECK_DEADLOCK FALSE\n")
        info = tlc_plain(os.path.join(d, "MC_eval.tla"), os.path.join(d, "MC_eval.cfg"), workers=2, cwd=d)
        exp = {}
        for l in info["out"].splitlines():
            if l.startswith('"['):
                rec = json.loads(json.loads(l))
                exp[(ids[rec[1] - 1], rec[2])] = rec[3]
        if len(exp) < len(ids) * 81:
            raise ToolFailure("TLC did not evaluate Emit.tla on the texts: " + info["out"][-1200:])
        for key, (ok, got) in sorted(bufs.items()):
            total += 1
            e = exp[key]
            # bytes beyond what the function wrote keep the 0xA5 fill: compare the written prefix, require the rest untouched
            wrote = got[:len(e)]
            rest_ok = all(b == 0xA5 for b in got[len(e):])
            if not ok or wrote != e or not rest_ok:
                rp = os.path.join(REPLAYS, "C16_buf_%s_%d_%d.txt" % (lang, key[0], key[1]))
                open(rp, "w").write("build %s text %s n %d\nexpected %s\ngot %s guards_intact %d\n" % (lang, texts[key[0]], key[1], e, got, ok))
                what = "wrote outside buf[0..n-1]" if not ok else "buffer contents differ from Emit.tla's Emitted(text, n)"
                run.violation("O-canary|debug_state|n=%d|%s" % (key[1], lang), rp, "%s build, text #%d (%d chars), n=%d: %s; expected %s got %s" % (lang, key[0], len(texts[key[0]]), key[1], what, e[-6:], got[max(0, len(e) - 6):len(e) + 2]))
        run.sample({"build": lang, "texts": len(ids), "example_text": "".join(chr(c) for c in texts[ids[-1]])[:120]})
    run.add("evaluations", total); run.add("distinct_nontrivial", total)
    run.cov["buffer_cases"] = total


def main(tier, replay=None):
    return mu_check("C16", tier, replay, post=buffer_part,
                    extra_rule="; part (b): for the C and C++ libraries, in states with 0..3 waiters queued on a mutex / cv, each of the four debug-state functions is called "
                               "with n = 0..80 into a guard-framed buffer and the bytes must equal Emitted(text, n) as evaluated by TLC from Emit.tla (whose law is model-checked "
                               "for all texts up to length 6)")
