from mulib import mu_check


def main(tier, replay=None):
    return mu_check("C16", tier, replay)
