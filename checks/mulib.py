"""Shared driver for the Mu.tla-based checks: one configuration = TLC exhaustive run with graph
export, transition tours, lock-step replay on the real code (harness h_mu)."""
import os, shutil, json
from common import *
import muconf
from muconf import P, op

MC = os.path.join(BUILD, "mc")
_consts = None


def consts():
    global _consts
    if _consts is None:
        _consts = muconf.extract_consts(REPO, os.path.join(BUILD, "consts"))
        if _consts.get("partial"):
            raise ToolFailure("a mask in common.h sets only part of the reader-count field; Mu.tla cannot represent it")
    return _consts


def prepare_spec():
    os.makedirs(MC, exist_ok=True)
    for f in ("Mu.tla",):
        shutil.copy(os.path.join(SPEC, f), os.path.join(MC, f))


def fmt_mu_obs(o):
    return tlcgraph.fmt_obs_noghost(o)


def run_config(run, exe, name, conf, invariants, env=None, workers=4, cap_tours=None, prop="C01", timeout=3000, expect_refuted=None):
    """returns dict(info, res, tours, g).  TLC verdict handling is left to the caller."""
    c = dict(consts())
    tla, cfg = muconf.write_mc(MC, name, conf, c, invariants)
    g, info = tlcgraph.run_tlc_graph(tla, cfg, workers=workers, cwd=MC, timeout=timeout)
    out = {"info": info, "g": g, "res": None, "tours": 0, "steps": 0}
    if not info["ok"] and not info["violated"]:
        raise ToolFailure("TLC failed on %s: %s" % (name, "\n".join(info["log"][-40:])))
    tours = tlcgraph.build_tours(g, cap_tours=cap_tours)
    sched = os.path.join(BUILD, "tlc", "mu_%s.sched" % name)
    init = muconf.init_line(conf)
    steps = tlcgraph.write_schedule(sched, g, tours, init, obs_fmt=fmt_mu_obs)
    e = dict(os.environ); e["VERIF_PROP"] = prop
    if env:
        e.update(env)
    res = run_harness_env(exe, ["replay", sched, REPLAYS], e)
    out.update(res=res, tours=len(tours), steps=steps, sched=sched, init=init, tour_list=tours, env=e)
    out["findings"] = tlcgraph.analyse(g)
    return out


def confirm(run, exe, name, out, finding, k):
    """replay the counterexample of a spec-level finding on the real code (decision rule b): confirmed iff the
    real code follows it in lock-step to the end (then the observable values the invariant speaks about are the
    real ones) or a real-code oracle fires on the way.  Returns (confirmed, replay_path, detail)"""
    g = out["g"]
    path = os.path.join(REPLAYS, "%s_%s_%s_%d.sched" % (run.prop, name, finding["name"], k))
    tlcgraph.write_schedule(path, g, [finding["path"]], out["init"], obs_fmt=fmt_mu_obs)
    res = run_harness_env(exe, ["replay", path, REPLAYS], out["env"])
    if res["viols"]:
        v = res["viols"][0]
        return True, path, "real-code oracle %s in %s: %s" % (v[0], v[1], v[5])
    if res["stats"].get("matched", 0) == 1:
        return True, path, "the real code follows TLC's counterexample in lock-step to the state in which %s fails (label %s)" % (finding["name"], finding["label"])
    return False, path, "not reproduced: " + str(res["mismatch"])


def run_harness_env(exe, args, env, timeout=3000):
    import subprocess
    r = subprocess.run(["timeout", str(timeout), exe] + list(args), stdout=subprocess.PIPE, stderr=subprocess.PIPE, text=True, env=env)
    res = {"stats": {}, "viols": [], "mismatch": None, "ords": [], "rc": r.returncode, "out": r.stdout, "err": r.stderr, "lines": [], "maxsleeps": 0}
    for line in r.stdout.splitlines():
        if line.startswith("STATS "):
            for kv in line.split()[1:]:
                k, v = kv.split("=")
                res["stats"][k] = res["stats"].get(k, 0) + int(v)
        elif line.startswith("VIOL "):
            res["viols"].append(line[5:].split("|", 5))
        elif line.startswith("MISMATCH ") and res["mismatch"] is None:
            res["mismatch"] = line[9:]
        elif line.startswith("ORD "):
            res["ords"].append(line.split()[1:])
        elif line.startswith("MAXSLEEPS "):
            res["maxsleeps"] = max(res["maxsleeps"], int(line.split()[1]))
        else:
            res["lines"].append(line)
    if r.returncode not in (0, 1):
        raise ToolFailure("harness %s exited %d: %s %s" % (exe, r.returncode, r.stdout[-1500:], r.stderr[-1500:]))
    return res


def account(run, name, out, init=None):
    info, res, g = out["info"], out["res"], out["g"]
    st = res["stats"]
    run.add("states", info["distinct"]); run.add("transitions", len(g.edges))
    run.add("traces_validated_against_impl", st.get("matched", 0))
    run.add("evaluations", st.get("tours", 0)); run.add("distinct_nontrivial", st.get("nontrivial", 0))
    run.add("transitions_replayed", out["steps"])
    run.cov.setdefault("configs", []).append({"name": name, "states": info["distinct"], "transitions": len(g.edges), "tours": out["tours"],
                                              "matched": st.get("matched", 0), "diverged": st.get("diverged", 0),
                                              "tlc_wall_s": round(info["wall"], 1), "tlc_verdict": info["violated"] or "ok"})
    if res["mismatch"]:
        run.note("DIVERGENCE in %s (spec/code; not a violation by itself): %s" % (name, res["mismatch"]))
        run.cov["conformant"] = False
    if out.get("tour_list"):
        t = max(out["tour_list"][:200], key=len)
        run.sample({"config": name, "behaviour": ["%d:%s" % (g.edges[e][2], g.edges[e][3]) for e in t][:80]})


_dbgfixed = None


def detect_dbgfixed(exe):
    """which release does emit_mu_state use?  Observed from the code under test (DESIGN 3.5c): run a few
    random schedules of {locker, waiter, debug caller} with the operation log on and look at how the
    function that took the spinlock gives it back."""
    global _dbgfixed
    if _dbgfixed is not None:
        return _dbgfixed
    conf = dict(progs=[P("L", "D", "U"), P("L", "U")], NV=1)
    tr = os.path.join(BUILD, "tlc", "dbgprobe.ndjson")
    run_harness_env(exe, ["random", "60", "7", muconf.init_line(conf), REPLAYS, tr], dict(os.environ))
    kinds = set()
    for line in open(tr):
        if '"fn":"emit_mu_state"' in line and '"o":"mu' in line:
            kinds.add(json.loads(line)["k"])
    os.unlink(tr)
    _dbgfixed = "st" not in kinds
    return _dbgfixed
