"""Shared driver for the Mu.tla-based checks: one configuration = TLC exhaustive run with graph
export, transition tours, lock-step replay on the real code (harness h_mu)."""
import os, shutil, json
from common import *
import muconf
from muconf import P, op

MC = os.path.join(WORK, "mc")
_consts = None


def consts():
    global _consts
    if _consts is None:
        _consts = muconf.extract_consts(REPO, os.path.join(WORK, "consts"))
        if _consts.get("partial"):
            raise ToolFailure("a mask in common.h sets only part of the reader-count field; Mu.tla cannot represent it")
    return _consts


def prepare_spec():
    os.makedirs(MC, exist_ok=True)
    for f in ("Mu.tla",):
        shutil.copy(os.path.join(SPEC, f), os.path.join(MC, f))


def fmt_mu_obs(o):
    return tlcgraph.fmt_obs_noghost(o)


def run_config(run, exe, name, conf, invariants, env=None, workers=4, cap_tours=None, prop="C01", timeout=3000, expect_refuted=None, simulate=None):
    """returns dict(info, res, tours, g).  TLC verdict handling is left to the caller."""
    c = dict(consts())
    tla, cfg = muconf.write_mc(MC, name, conf, c, invariants)
    budget = int(os.environ.get("VERIF_BFS_BUDGET", "1500"))
    g, info = tlcgraph.run_tlc_graph(tla, cfg, workers=workers, cwd=MC, timeout=timeout if simulate else min(timeout, budget), simulate=simulate, sim_seed=seed())
    if not simulate and info.get("rc") == 124:
        # breadth-first search did not finish within its budget (large configuration, or a loaded machine): fall back to behaviours from
        # TLC's simulation mode for this configuration, recorded as such in the evidence
        run.note("configuration %s: breadth-first search exceeded %d s (%d distinct states so far); using simulation-mode behaviours instead" % (name, budget, info.get("distinct", 0)))
        run.cov.setdefault("bfs_fallback_to_simulation", []).append(name)
        g, info = tlcgraph.run_tlc_graph(tla, cfg, workers=workers, cwd=MC, timeout=timeout, simulate=(150, 800), sim_seed=seed())
    out = {"info": info, "g": g, "res": None, "tours": 0, "steps": 0}
    if not info["ok"] and not info["violated"]:
        raise ToolFailure("TLC failed on %s: %s" % (name, "\n".join(info["log"][-40:])))
    # every transition is replayed once, up to a bound on the number of behaviours (the largest thorough-tier graphs would otherwise
    # take hours to replay); a capped configuration is recorded as such
    maxt = cap_tours or int(os.environ.get("VERIF_MAX_TOURS", "60000"))
    tours = tlcgraph.build_tours(g, cap_tours=maxt)
    if len(tours) >= maxt:
        run.cov.setdefault("tours_capped", []).append({"config": name, "tours": len(tours), "transitions": len(g.edges)})
    sched = os.path.join(WORK, "tlc", "mu_%s.sched" % name)
    init = muconf.init_line(conf)
    steps = tlcgraph.write_schedule(sched, g, tours, init, obs_fmt=fmt_mu_obs)
    e = dict(os.environ); e["VERIF_PROP"] = prop
    if prop != "C03":
        e.setdefault("VERIF_SOFT", "O-hb")     # ... counted, not fatal, outside C03
    e.setdefault("VERIF_HB", "1")      # the race detector watches nsync's own plain accesses in every replay: a race (O-hb, C03's oracle) means
    if env:                            # the atomic-operation granularity of the schedule is too coarse for this code, and triggers exploration
        e.update(env)                  # at the granularity of plain accesses (below)
    res = run_harness_env(exe, ["replay", sched, REPLAYS], e)
    out.update(res=res, tours=len(tours), steps=steps, sched=sched, init=init, tour_list=tours, env=e)
    out["findings"] = tlcgraph.analyse(g)
    return out


def confirm(run, exe, name, out, finding, k):
    """replay the counterexample of a spec-level finding on the real code (decision rule b): confirmed iff the
    real code follows it in lock-step to the end (then the observable values the invariant speaks about are the
    real ones) or a real-code oracle fires on the way.  Returns (confirmed, replay_path, detail)"""
    g = out["g"]
    path = os.path.join(REPLAYS, "%s_%s_%s_%d.sched" % (run.prop, name, finding["name"], k))
    tlcgraph.write_schedule(path, g, [finding["path"]], out["init"], obs_fmt=fmt_mu_obs)
    res = run_harness_env(exe, ["replay", path, REPLAYS], out["env"])
    if res["viols"]:
        v = res["viols"][0]
        return True, path, "real-code oracle %s in %s: %s" % (v[0], v[1], v[5])
    if res["stats"].get("matched", 0) == 1:
        return True, path, "the real code follows TLC's counterexample in lock-step to the state in which %s fails (label %s)" % (finding["name"], finding["label"])
    return False, path, "not reproduced: " + str(res["mismatch"])


def explore_budget(run):
    """seconds one exploratory harness call (after a divergence) may take: exploration is a bonus on top of the lock-step replays, and a change
    that makes every schedule long (loopers, re-sequenced fast paths) must not turn a three-minute check into a forty-minute one"""
    return int(os.environ.get("VERIF_EXPLORE_BUDGET", "60" if run.tier == "quick" else "1200"))


_explore_spent = [0.0]


def explore_allowed(run):
    """exploration after divergences has a total allowance per check as well (quick: 8 minutes): the first diverging configurations get it"""
    cap = float(os.environ.get("VERIF_EXPLORE_TOTAL", "480" if run.tier == "quick" else "7200"))
    if _explore_spent[0] > cap:
        if not run.cov.get("exploration_allowance_used_up"):
            run.note("the allowance for exploration after divergences (%d s) is used up: further diverging configurations are reported as divergences only" % cap)
        run.cov["exploration_allowance_used_up"] = True
        return False
    return True


def run_harness_env(exe, args, env, timeout=3000, soft=False):
    import subprocess
    r = subprocess.run(["timeout", str(timeout), exe] + list(args), stdout=subprocess.PIPE, stderr=subprocess.PIPE, text=True, env=env)
    if soft and r.returncode == 124:
        r.returncode = 1 if "VIOL " in r.stdout else 0        # out of budget: what was found so far stands
    res = {"stats": {}, "viols": [], "mismatch": None, "ords": [], "rc": r.returncode, "out": r.stdout, "err": r.stderr, "lines": [], "maxsleeps": 0}
    for line in r.stdout.splitlines():
        if line.startswith("STATS "):
            for kv in line.split()[1:]:
                k, v = kv.split("=")
                res["stats"][k] = res["stats"].get(k, 0) + int(v)
        elif line.startswith("VIOL "):
            res["viols"].append(line[5:].split("|", 5))
        elif line.startswith("DIVFILE "):
            res.setdefault("divfiles", []).append(line[8:].strip())
        elif line.startswith("SOFT "):
            res.setdefault("soft", []).append(line[5:].strip())
        elif line.startswith("MISMATCH ") and res["mismatch"] is None:
            res["mismatch"] = line[9:]
        elif line.startswith("ORD "):
            res["ords"].append(line.split()[1:])
        elif line.startswith("MAXSLEEPS "):
            res["maxsleeps"] = max(res["maxsleeps"], int(line.split()[1]))
        else:
            res["lines"].append(line)
    if r.returncode not in (0, 1):
        raise ToolFailure("harness %s exited %d: %s %s" % (exe, r.returncode, r.stdout[-1500:], r.stderr[-1500:]))
    return res


def account(run, name, out, init=None):
    info, res, g = out["info"], out["res"], out["g"]
    st = res["stats"]
    run.add("states", info["distinct"]); run.add("transitions", len(g.edges))
    run.add("traces_validated_against_impl", st.get("matched", 0))
    run.add("evaluations", st.get("tours", 0)); run.add("distinct_nontrivial", st.get("nontrivial", 0))
    run.add("transitions_replayed", out["steps"])
    run.cov.setdefault("configs", []).append({"name": name, "states": info["distinct"], "transitions": len(g.edges), "tours": out["tours"],
                                              "matched": st.get("matched", 0), "diverged": st.get("diverged", 0),
                                              "tlc_wall_s": round(info["wall"], 1), "tlc_verdict": info["violated"] or "ok"})
    # which labels of the specification the lock-step replays of this check have taken (label coverage; tools/labelcov.py unions them)
    labs = run.cov.setdefault("labels_replayed", {})
    spec_of = name.split("/")[0] if "/" in name else "Mu"
    cur = set(labs.get(spec_of, []))
    cur.update(o[0] for o in res.get("ords", []) if o and o[0] not in ("*",))
    labs[spec_of] = sorted(cur)
    if res["mismatch"]:
        run.note("DIVERGENCE in %s (spec/code; not a violation by itself): %s" % (name, res["mismatch"]))
        run.cov["conformant"] = False
    if out.get("tour_list"):
        t = max(out["tour_list"][:200], key=len)
        run.sample({"config": name, "behaviour": ["%d:%s" % (g.edges[e][2], g.edges[e][3]) for e in t][:80]})


_dbgfixed = None


def detect_dbgfixed(exe):
    """which release does emit_mu_state use?  Observed from the code under test (DESIGN 3.5c): run a few
    random schedules of {locker, waiter, debug caller} with the operation log on and look at how the
    function that took the spinlock gives it back."""
    global _dbgfixed
    if _dbgfixed is not None:
        return _dbgfixed
    conf = dict(progs=[P("L", "D", "U"), P("L", "U")], NV=1)
    tr = os.path.join(WORK, "tlc", "dbgprobe.ndjson")
    run_harness_env(exe, ["random", "60", "7", muconf.init_line(conf), REPLAYS, tr], dict(os.environ))
    kinds = set()
    for line in open(tr):
        if '"fn":"emit_mu_state"' in line and '"o":"mu' in line:
            kinds.add(json.loads(line)["k"])
    os.unlink(tr)
    _dbgfixed = "st" not in kinds
    return _dbgfixed


_cvfix = None


def detect_cvfix(exe):
    """who clears the `waiting` flag of an nsync_wait_n record on a cv: wake_waiters (after the cv spinlock was
    dropped: the pinned tree) or nsync_cv_signal/broadcast under the spinlock (repaired)?  Observed, not assumed."""
    global _cvfix
    if _cvfix is not None:
        return _cvfix
    conf = dict(progs=[P("L", op("waitnloop", v=1), "U"), P("L", "set11", "S", "U")], NV=1)
    tr = os.path.join(WORK, "tlc", "cvprobe.ndjson")
    run_harness_env(exe, ["random", "40", "5", muconf.init_line(conf), REPLAYS, tr], dict(os.environ))
    fns = set()
    for line in open(tr):
        if '"k":"st"' in line and '"o":"stack' in line:
            fns.add(json.loads(line)["fn"])
    os.unlink(tr)
    _cvfix = "wake_waiters" not in fns
    return _cvfix


_tafix = None
_genfix = None


def _probe_variant(exe, cands, progs, tag):
    """which variant of a repaired function does the code under test have?  Decided by conformance: a small probe configuration is
    model-checked under each candidate assignment of the variant constants in turn and every transition replayed; the first one the
    code follows in lock-step is the answer (the last candidate if none)."""
    from muconfigs import C1
    prepare_spec()
    probe = Run("C00", "quick", "model_checking")
    for k, cand in enumerate(cands):
        conf = dict(progs=progs, NV=1, conds=C1, DbgFixed=True, CvFix=True, TaFix=True, TaWoke=True, GenFix=True, MwFix=True)
        conf.update(cand)
        out = run_config(probe, exe, "%s_probe_%d" % (tag, k), conf, [], workers=2, prop="C00")
        try:
            os.unlink(out["sched"])
        except OSError:
            pass
        for df in out["res"].get("divfiles", []):
            try:
                os.unlink(df)
            except OSError:
                pass
        if not out["res"]["mismatch"]:
            return cand
    return cands[-1]


_tawoke = None


def detect_tafix(exe):
    """mu_try_acquire_after_timeout_or_cancel: its final stores (defect 6.7) and whether its spin loop looks at the waiter's `waiting` flag
    (defect 6.9).  Probe: a reader-mode conditional wait cancelled while another reader holds the mutex (the loop spins at least once)."""
    global _tafix, _tawoke
    if _tafix is None:
        from muconfigs import mwt
        got = _probe_variant(exe, [dict(TaFix=True, TaWoke=True), dict(TaFix=True, TaWoke=False), dict(TaFix=False, TaWoke=False), dict(TaFix=False, TaWoke=True)],
                             [P("R", mwt(1, cn=True), "RU"), P("R", "N", "RU")], "ta")
        _tafix, _tawoke = got["TaFix"], got["TaWoke"]
    return _tafix


def detect_tawoke(exe):
    detect_tafix(exe)
    return _tawoke


def detect_genfix(exe):
    """does wake_waiters move a generic-lock waiter that sits behind a native waiter to the mutex queue (defect 6.8)?  Observed, not
    assumed: a native waiter, a generic-lock waiter behind it, a broadcast issued with the mutex held; in the operation log, who clears
    the `waiting` flag that the generic-lock waiter set in its cv wait: wake_waiters (it was woken directly: repaired) or
    nsync_mu_unlock_slow_ (it had been moved to the mutex queue)?"""
    global _genfix
    if _genfix is not None:
        return _genfix
    conf = dict(progs=[P("L", op("cvwait"), "U"), P("G1", "L", op("cvwait", x=9), "U"), P("G2", "L", "B", "U")], NV=1)
    os.makedirs(os.path.join(WORK, "tlc"), exist_ok=True)
    tr = os.path.join(WORK, "tlc", "genprobe.ndjson")
    run_harness_env(exe, ["random", "40", "9", muconf.init_line(conf), REPLAYS, tr], dict(os.environ))
    obj2, setter, moved = None, {}, False
    for line in open(tr):
        if '"k":"st"' not in line or '"o":"heap' not in line:
            continue
        d = json.loads(line)
        if obj2 is None and d["t"] == 2 and d["fn"] == "nsync_cv_wait_with_deadline_generic" and d["a"] == 1:
            obj2 = d["o"]
        if d["a"] == 1:
            setter[d["o"]] = d["fn"]
        elif d["a"] == 0 and d["o"] == obj2 and d["fn"] == "nsync_mu_unlock_slow_" and setter.get(d["o"]) == "nsync_cv_wait_with_deadline_generic":
            moved = True
    os.unlink(tr)
    _genfix = not moved
    return _genfix


_mwfix = None
_mwfix_viols = []       # what the scripted schedule of detect_mwfix showed on the code under test (a real execution: reported by C02 / C06)


def detect_mwfix(exe):
    """does a reader-mode nsync_mu_wait that releases the last read lock wake the queued writer when a designated waker existed at the time it
    queued itself but not any more (defect 6.10)?  Observed with one scripted coarse schedule on the code under test (harness mode `coarse`):
    writer A holds, reader X queues, A unlocks (X is woken: designated waker), reader T takes a read lock, A locks again and queues, T enters
    nsync_mu_wait on a false condition and takes the spinlock, X acquires, releases and finishes, T releases and sleeps.  Is A asleep too?"""
    global _mwfix
    if _mwfix is None:
        from muconfigs import mwt, C1
        conf = dict(progs=[P("L", "U", "L", "U"), P("R", "RU"), P("R", mwt(1), "RU")], NV=1, conds=C1)
        res = run_harness_env(exe, ["coarse", muconf.init_line(conf), "1c,2b,1c,3c,1b,3s,2f,3b", REPLAYS], dict(os.environ, VERIF_PROP="C06"))
        _mwfix_viols.extend(res["viols"])
        line = [l for l in res["lines"] if l.startswith("COARSE")]
        m = re.search(r"asleep=(\d*)", line[0]) if line else None
        _mwfix = not (m and "1" in m.group(1))
    return _mwfix


def variants(exe):
    """the spec parameters that name a variant of the code (a defect and its repair); observed from the code under test, never assumed"""
    return {"DbgFixed": detect_dbgfixed(exe), "CvFix": detect_cvfix(exe), "TaFix": detect_tafix(exe), "TaWoke": detect_tawoke(exe), "GenFix": detect_genfix(exe), "MwFix": detect_mwfix(exe)}


def with_variants(conf, exe):
    conf = dict(conf)
    for k, v in variants(exe).items():
        conf.setdefault(k, v)
    return conf


# which spec invariants / real-code oracles speak for which property
INV_OF = {"C01": {"Excl"}, "C02": {"NoStuck"}, "C04": {"PickedReportsWake", "NoStuck"}, "C05": {"RetHonest", "NoStuck"},
          "C06": {"NoStuck"}, "C11": {"PickedReportsWake", "NoStuck"}, "C13": {"NoDeadRecordTouch", "NoTouchAfterFree"},
          "C14": {"SleepBound"}, "C16": {"Excl", "NoStuck", "WordAgrees"}}
ORACLE_OF = {"C01": {"O-excl"}, "C02": {"O-prog"}, "C04": {"O-prog", "O-ret"}, "C05": {"O-ret", "O-prog"}, "C06": {"O-prog", "O-cond", "O-ret"},
             "C11": {"O-ret", "O-prog", "O-mem"}, "C13": {"O-mem"}, "C14": {"O-starve"}, "C16": {"O-excl", "O-prog", "O-canary"}, "C03": {"O-hb"}, "C15": {"O-ret", "O-prog", "O-mem"}}
ALWAYS = {"O-crash"}


def continue_divergences(run, exe, name, out, wanted_or, per_file=None):
    per_file = per_file or (3000 if run.tier == "quick" else 60000)
    for k, df in enumerate(out["res"].get("divfiles", [])[:6]):
        resz = run_harness_env(exe, ["from", df, str(per_file), str(seed() + 20 + k), REPLAYS], out["env"], timeout=max(30, explore_budget(run) // 3), soft=True)
        run.add("evaluations", per_file)
        run.cov.setdefault("continued_divergences", []).append({"config": name, "runs": per_file, "violations": len(resz["viols"])})
        for v in resz["viols"]:
            if v[0] in wanted_or:
                run.violation("%s|%s|continue %s" % (v[0], v[1], name), v[4], v[5])
        try:
            os.unlink(df)
        except OSError:
            pass


def preemption_bounded(run, exe, name, init, nthreads, env, wanted_or, ignore=()):
    pf = os.path.join(WORK, "tlc", "pb_%s_%d.init" % (re.sub(r"[^A-Za-z0-9_]", "_", name), os.getpid()))
    e = dict(env, VERIF_PLAIN="1")
    pre = "plain=1 "
    if ignore:
        e["VERIF_IGNORE"] = ",".join(ignore); pre += "ignore=%s " % ",".join(ignore)
    open(pf, "w").write("T 1 %s%s\nE\n" % (pre, init))
    bound = 2 if nthreads <= 2 else 1
    cap = 60000 if run.tier == "quick" else 600000
    res = run_harness_env(exe, ["pb", pf, str(bound), str(cap), REPLAYS], e, timeout=explore_budget(run), soft=True)
    os.unlink(pf)
    run.add("evaluations", res["stats"].get("tours", 0))
    run.cov.setdefault("preemption_bounded", []).append({"config": name, "bound": bound, "schedules": res["stats"].get("tours", 0), "violations": len(res["viols"])})
    for v in res["viols"]:
        if v[0] in wanted_or:
            run.violation("%s|%s|preemption-bounded %s" % (v[0], v[1], name), v[4], v[5])


def run_family(run, exe, prop, configs, parallel=5, workers=3, env=None, cap_tours=None):
    """configs: list of (name, conf).  Runs each (TLC exhaustive + tours + lock-step replay), then applies the
    decision rule: real-code oracle failures of this property's oracles, and spec-level refutations of this
    property's invariants confirmed by replay."""
    import concurrent.futures as cf
    prepare_spec()
    var = variants(exe)
    run.cov["spec_parameters_from_code"] = {"DbgFixed": var["DbgFixed"], "CvFix": var["CvFix"], "TaFix": var["TaFix"], "TaWoke": var["TaWoke"], "GenFix": var["GenFix"], "MwFix": var["MwFix"], "K": consts()["K"], "masks": {k: consts()[k] for k in ("WLOCK", "SPIN", "WAITING", "DESIG", "CONDB", "WRW", "LONGW", "ALLF", "RLOCK")},
                                            "LTW": consts()["LTW"], "LTR": consts()["LTR"]}

    if prop in ("C02", "C06"):
        for v in _mwfix_viols:
            if v[0] in (ORACLE_OF.get(prop, set()) | ALWAYS):
                run.violation("%s|%s|scripted schedule mw_rd_dw" % (v[0], v[1]), v[4], v[5] + " (a reader-mode nsync_mu_wait releases the last read lock without waking the queued writer: scripted schedule of mulib.detect_mwfix)")
    exe_bin = build("h_mub") if any(c.get("Binary") for _, c in configs) else None

    def one(item):
        name, conf = item
        conf = with_variants(conf, exe)
        env1 = dict(env or {}, **conf["_env"]) if conf.get("_env") else env
        return name, conf, run_config(run, exe_bin if conf.get("Binary") else exe, name, conf, [], workers=workers, prop=prop, env=env1, cap_tours=cap_tours, simulate=conf.get("_sim"))
    results = []
    with cf.ThreadPoolExecutor(parallel) as ex:
        for r in ex.map(one, configs):
            results.append(r)
    wanted_inv = INV_OF.get(prop, set())
    wanted_or = ORACLE_OF.get(prop, set()) | ALWAYS
    for name, conf, out in results:
        account(run, name, out)
        for v in out["res"]["viols"]:
            sig = "%s|%s|%s" % (v[0], v[1], name)
            if v[0] in wanted_or:
                run.violation(sig, v[4], v[5])
            else:
                run.note("oracle of another property fired in %s: %s %s: %s" % (name, v[0], v[1], v[5][:160]))
        for k, f in enumerate(out["findings"]):
            tag = "TLC|%s|%s|%s|%s" % (f["name"], f["label"], "+".join(f["taints"]) or "untainted", name)
            if f["name"] not in wanted_inv:
                run.note("spec-level refutation outside this property: " + tag)
                continue
            ok, path, detail = confirm(run, exe_bin if conf.get("Binary") else exe, name, out, f, k)
            if ok:
                run.violation(tag, path, "Mu.tla (constants from the code) refutes %s in configuration %s; %s" % (f["name"], name, detail))
            else:
                run.note("spec-level refutation NOT reproduced on the code (%s): %s" % (tag, detail))
        foreign_ls = sorted(({v[0] for v in out["res"]["viols"]} | {x.split()[1].split("|")[0] for x in out["res"].get("soft", []) if len(x.split()) > 1}) - set(wanted_or) - {"O-crash", "O-harness"})
        if out["res"].get("soft"):
            run.note("oracle of another property counted in %s (the replays went on): %s" % (name, out["res"]["soft"][0][:200]))
        if (out["res"]["mismatch"] or foreign_ls) and explore_allowed(run):
            _t_ex = time.time()
            # DESIGN 3.7: a divergence is not a violation; it triggers extra exploration of that configuration, judged by oracles only:
            # (1) the diverging behaviours themselves, continued from the point of divergence with random schedules
            continue_divergences(run, exe_bin if conf.get("Binary") else exe, name, out, wanted_or)
            # (2) the configuration from its initial state
            nloc = 20000 if run.tier == "quick" else 300000
            resx = run_harness_env(exe_bin if conf.get("Binary") else exe, ["random", str(nloc), str(seed() + 7), out["init"], REPLAYS], out["env"], timeout=explore_budget(run), soft=True)
            run.add("evaluations", nloc); run.add("distinct_nontrivial", resx["stats"].get("nontrivial", 0))
            run.cov.setdefault("local_exploration_after_divergence", []).append({"config": name, "runs": nloc, "violations": len(resx["viols"])})
            hit = False
            for v in resx["viols"]:
                if v[0] in wanted_or:
                    run.violation("%s|%s|explore %s" % (v[0], v[1], name), v[4], v[5]); hit = True
                else:
                    run.note("oracle of another property fired while exploring %s after a divergence: %s %s: %s" % (name, v[0], v[1], v[5][:160]))
            foreign = sorted(({v[0] for v in resx["viols"]} | set(foreign_ls)) - set(wanted_or) - {"O-crash", "O-harness"})
            if foreign and not hit:
                # only another property's oracle fired: switch it off and see what the fault does to this property; plain accesses to shared
                # memory become scheduling points too, since the fault may be a race between plain accesses
                resy = run_harness_env(exe_bin if conf.get("Binary") else exe, ["random", str(nloc * 10), str(seed() + 8), "plain=1 ignore=%s " % ",".join(foreign) + out["init"], REPLAYS], dict(out["env"], VERIF_IGNORE=",".join(foreign), VERIF_PLAIN="1"), timeout=explore_budget(run), soft=True)
                run.add("evaluations", nloc * 10)
                run.cov["local_exploration_after_divergence"].append({"config": name, "runs": nloc * 10, "violations": len(resy["viols"]), "ignoring": foreign})
                for v in resy["viols"]:
                    if v[0] in wanted_or:
                        run.violation("%s|%s|explore %s" % (v[0], v[1], name), v[4], v[5])
            # (3) systematically: every schedule of the configuration with at most two preemptions (one for three threads and more), at the
            #     granularity of plain accesses: a window of a few instructions is one of the enumerated points, not a matter of luck
            preemption_bounded(run, exe_bin if conf.get("Binary") else exe, name, out["init"], len(conf["progs"]), out["env"], wanted_or, foreign if (foreign and not hit) else [])
            _explore_spent[0] += time.time() - _t_ex
        try:
            os.unlink(out["sched"])
        except OSError:
            pass
    return results


RULE = ("each case is one behaviour of Mu.tla (one label per atomic operation) from the initial state to a terminal state, "
        "replayed in lock-step on the real mu.c/mu_wait.c/cv.c/wait.c/sem_wait.c/debug.c under the deterministic runtime; the tours "
        "of a configuration together take every transition TLC generated (exhaustive for that configuration); the property's oracles "
        "run on the real execution at every step and the property's invariants are evaluated by TLC in every state; non-trivial = "
        "contains a failed CAS, a spin-delay, or a semaphore sleep")
BASE_ASSUME = ["sequentially consistent interleavings of the atomic operations (C03 judges the declared memory orders separately)",
               "2-3 threads with 1-4 client operations each, one mutex, one condition variable, one cancellation note, clock 0..1",
               "semaphore, waiter pool and note operations are single steps at this layer (justified by Sem.tla / Note.tla)",
               "TLC, SANY, gcc -fsanitize=thread instrumentation and /verif/rt are trusted"]


def trace_phase(run, exe, prop, tier, e):
    """code -> spec (DESIGN 3.4): random-schedule executions of the real code are logged (thread, kind of operation, mutex word,
    cv word per step) and validated by TLC against MuTrace.tla; Mu.tla's invariants are evaluated on every matched state."""
    import muconfigs, subprocess, concurrent.futures as cf
    progs = muconfigs.RANDOM.get(prop, [])
    if not progs:
        return
    shutil.copy(os.path.join(SPEC, "MuTrace.tla"), os.path.join(MC, "MuTrace.tla"))
    nruns = 120 if tier == "quick" else 3000
    variants(exe)

    def one(i):
        conf = with_variants(progs[i], exe)
        tr = os.path.join(WORK, "tlc", "trace_%s_%d.ndjson" % (prop, i))
        res = run_harness_env(exe, ["random", str(nruns), str(seed() + 50 + i), muconf.init_line(conf), REPLAYS, tr], e)
        nlines = sum(1 for _ in open(tr))
        tla, cfg = muconf.write_mc(MC, "trace_%s_%d" % (prop, i), conf, consts(), ["TraceInv"], spec="TraceSpec", export=False, base="MuTrace",
                                   extra_cfg="CONSTRAINT Progress\nPOSTCONDITION Accepted\n")
        info = tlc_plain(tla, cfg, workers=1, cwd=MC, env=dict(os.environ, TRACE=tr), timeout=1500)
        m = re.search(r'<<"matched", (\d+), "of", (\d+)>>', info["out"])
        matched = int(m.group(1)) if m else 0
        os.unlink(tr)
        return i, conf, nlines, matched, info
    with cf.ThreadPoolExecutor(4) as ex:
        for i, conf, nlines, matched, info in ex.map(one, range(len(progs))):
            acc = info["ok"] and matched == nlines
            run.cov.setdefault("recorded_traces", []).append({"program": i, "threads": len(conf["progs"]), "executions": nruns, "events": nlines, "matched": matched,
                                                              "accepted": acc, "states": info["distinct"]})
            if acc:
                run.add("traces_validated_against_impl", nruns)
            elif info["violated"]:
                run.violation("TLC|%s|recorded trace of random program %d" % (info["violated"], i), "-",
                              "an invariant of Mu.tla fails on a state of a recorded execution of the real code (matched %d of %d events): %s" % (matched, nlines, info["out"][-300:]))
            else:
                run.note("DIVERGENCE: recorded executions of random program %d are not behaviours of Mu.tla (longest matched prefix %d of %d events); not a violation by itself" % (i, matched, nlines))
                run.cov["conformant"] = False


LIVE = {"C02": ["lk_wr", "lk_rr_w", "lk_try", "bin_wr"], "C04": ["cv_sig_in", "cv_timed", "cv_rd"], "C05": ["cv_timed", "mw_timed", "mw_rd", "cv_cancel_dl"],
        "C06": ["mw_1", "mw_timed"], "C16": ["db_1", "db_2"], "C01": []}
LIVE_T = {"C02": ["lk_3", "lk_3r", "bin_3"], "C04": ["cv_timed_after", "wn_in", "wn_after"], "C05": ["cv_cancel_sig"], "C06": ["mw_ww", "mw_rd"]}


def liveness_phase(run, prop, tier):
    """Termination under weak fairness of every thread's steps and of the clock (FairSpecU): no livelock in the spin loops, every
    lock / wait call eventually returns (programs in which everybody is meant to finish)."""
    import muconfigs, concurrent.futures as cf
    names = LIVE.get(prop, []) + (LIVE_T.get(prop, []) if tier == "thorough" else [])
    if not names:
        return
    def one(name):
        conf = dict(muconfigs.FAM[name][0])
        for k, v in (("DbgFixed", _dbgfixed), ("CvFix", _cvfix), ("TaFix", _tafix), ("TaWoke", _tawoke), ("GenFix", _genfix), ("MwFix", _mwfix)):
            conf.setdefault(k, True if v is None else v)
        tla, cfg = muconf.write_mc(MC, "live_" + name, conf, consts(), [], spec="FairSpecU", export=False, props=["Termination"])
        return name, tlc_plain(tla, cfg, workers=3, cwd=MC, timeout=3000)
    with cf.ThreadPoolExecutor(4) as ex:
        for name, info in ex.map(one, names):
            run.cov.setdefault("liveness", []).append({"config": name, "property": "Termination under WF", "states": info["distinct"], "verdict": "holds" if info["ok"] else (info["violated"] or "error")})
            run.add("liveness_states", info["distinct"])
            if not info["ok"]:
                if info["violated"] == "Temporal":
                    rp = os.path.join(REPLAYS, "%s_live_%s.txt" % (prop, name))
                    open(rp, "w").write(info["out"][-6000:])
                    run.violation("TLC|Termination|%s" % name, rp, "Mu.tla (constants from the code) admits a fair behaviour of configuration %s in which some thread never finishes (livelock or lost wake-up under fairness)" % name)
                else:
                    raise ToolFailure("liveness check of %s failed: %s" % (name, info["out"][-1500:]))


def fine_runs(run, exe, prop, tier, e):
    import muconfigs
    nruns = 1500 if tier == "quick" else 40000
    for i, conf in enumerate(muconfigs.FINE.get(prop, [])):
        res = run_harness_env(exe, ["random", str(nruns), str(seed() + 100 + i), "fine=1 " + muconf.init_line(conf), REPLAYS], dict(e, VERIF_FINE="1"))
        run.add("evaluations", nruns); run.add("distinct_nontrivial", res["stats"].get("nontrivial", 0))
        run.cov.setdefault("random_fine_note", []).append({"program": i, "runs": nruns, "violations": len(res["viols"])})
        for v in res["viols"]:
            if v[0] in (ORACLE_OF.get(prop, set()) | ALWAYS | {"O-prog", "O-ret"}):
                run.violation("%s|%s|fine %d" % (v[0], v[1], i), v[4], v[5])


def generated_phase(run, exe, prop, tier, e):
    """Generated client programs (tools/genprog.py): 3-5 threads drawn from the operation menu of Mu.tla's configurations, biased towards
    the property's features, built so that every thread must finish under every schedule.  Each is run under random and priority-based
    schedules with the oracles on (code side), and the executions of the first few are recorded and validated against MuTrace.tla
    (code -> spec: every invariant of Mu.tla evaluated in every matched state).  Half of the programs also run on the
    LONG_WAIT_THRESHOLD = 2 build, where the long-wait escalation is reached by ordinary contention."""
    import genprog, concurrent.futures as cf
    if prop not in genprog.FOCUS:
        return
    nprog = int(os.environ.get("VERIF_GENPROGS", 48 if tier == "quick" else 600))
    nruns = 1500 if tier == "quick" else 8000
    ntrace = 4 if tier == "quick" else 24
    base = seed() * 100000
    exe2 = build("h_mu", extra_defs=kdefs(2))
    exeb = build("h_mub")
    wanted = ORACLE_OF.get(prop, set()) | ALWAYS
    shutil.copy(os.path.join(SPEC, "MuTrace.tla"), os.path.join(MC, "MuTrace.tla"))
    variants(exe)

    def one(i):
        conf = genprog.gen(base + i, prop)
        k2 = (i % 2 == 1)
        binary = (i % 8 == 6)          # one program in eight on the binary-semaphore flavour (V sets the count to 1: a stale post is not remembered twice)
        if k2:
            conf["kthr"] = 2
        if binary:
            conf["Binary"] = True
        res = run_harness_env(exe2 if k2 else (exeb if binary else exe), ["random", str(nruns), str(base + i), muconf.init_line(conf), REPLAYS], e)
        tv = None
        if i < ntrace and not k2 and not binary:
            cv = with_variants(conf, exe)
            tr = os.path.join(WORK, "tlc", "gtrace_%s_%d.ndjson" % (prop, i))
            run_harness_env(exe, ["random", "40", str(base + 77 + i), muconf.init_line(cv), REPLAYS, tr], e)
            nlines = sum(1 for _ in open(tr))
            tla, cfg = muconf.write_mc(MC, "gtrace_%s_%d" % (prop, i), cv, consts(), ["TraceInv"], spec="TraceSpec", export=False, base="MuTrace",
                                       extra_cfg="CONSTRAINT Progress\nPOSTCONDITION Accepted\n")
            info = tlc_plain(tla, cfg, workers=1, cwd=MC, env=dict(os.environ, TRACE=tr), timeout=900)
            m = re.search(r'<<"matched", (\d+), "of", (\d+)>>', info["out"])
            tv = (nlines, int(m.group(1)) if m else 0, info)
            os.unlink(tr)
        return i, conf, res, tv
    nv = 0
    with cf.ThreadPoolExecutor(8) as ex:
        for i, conf, res, tv in ex.map(one, range(nprog)):
            run.add("evaluations", nruns); run.add("distinct_nontrivial", res["stats"].get("nontrivial", 0))
            for v in res["viols"]:
                if v[0] in wanted:
                    nv += 1
                    run.violation("%s|%s|generated %d" % (v[0], v[1], base + i), v[4], v[5])
                else:
                    run.note("oracle of another property fired in generated program %d: %s %s: %s" % (base + i, v[0], v[1], v[5][:160]))
            if tv:
                nlines, matched, info = tv
                acc = info["ok"] and matched == nlines
                run.cov.setdefault("recorded_traces", []).append({"program": "generated %d" % (base + i), "threads": len(conf["progs"]), "executions": 40, "events": nlines,
                                                                  "matched": matched, "accepted": acc, "states": info["distinct"]})
                if acc:
                    run.add("traces_validated_against_impl", 40)
                elif info["violated"]:
                    run.violation("TLC|%s|recorded trace of generated program %d" % (info["violated"], base + i), "-",
                                  "an invariant of Mu.tla fails on a state of a recorded execution of the real code (matched %d of %d events): %s" % (matched, nlines, info["out"][-300:]))
                else:
                    run.note("DIVERGENCE: recorded executions of generated program %d are not behaviours of Mu.tla (longest matched prefix %d of %d events); not a violation by itself" % (base + i, matched, nlines))
                    run.cov["conformant"] = False
    run.cov["generated_programs"] = {"programs": nprog, "schedules_each": nruns, "threads": "3-5", "on_K2_build": nprog // 2, "on_binary_semaphore_flavour": nprog // 8, "traces_validated": ntrace,
                                     "generator": "tools/genprog.py (seed %d..%d, focus %s)" % (base, base + nprog - 1, prop), "violations": nv}


def mu_check(prop, tier, replay, extra_rule="", extra_assume=(), env=None, post=None, family=None, cap_tours=None):
    import muconfigs
    run = Run(prop, tier, "model_checking")
    exe = build("h_mu")
    e = dict(os.environ, VERIF_PROP=prop)
    if env:
        e.update(env)
    if replay:
        rexe, renv = replay_target(replay, "h_mu")
        res = run_harness_env(rexe, ["replay", replay, REPLAYS], dict(e, **renv))
        for v in res["viols"]:
            run.violation("%s|%s|replay" % (v[0], v[1]), replay, v[5])
        if not res["viols"] and res["stats"].get("matched"):
            # a TLC counterexample: confirmed when the code follows it to the end
            if os.path.basename(replay).split("_")[2:3] and "_TLC" not in replay and res["stats"].get("matched") == 1 and any(
                    x in replay for x in ("Excl", "PickedReportsWake", "RetHonest", "NoDeadRecordTouch", "NoTouchAfterFree", "SleepBound", "NoStuck", "WordAgrees", "NoDeadRecord", "NoUseAfterFree")):
                run.violation("TLC|replay", replay, "the real code follows the specification's counterexample in lock-step to the end")
        return run.finish()
    run.cov["rule"] = RULE + extra_rule
    run.cov["exhaustive"] = True
    run.assumptions += BASE_ASSUME + list(extra_assume)
    fam = family if family is not None else muconfigs.family(prop, tier)
    results = run_family(run, exe, prop, fam, env=e, cap_tours=cap_tours)
    if tier == "thorough" and family is None:
        # the same (quick) family on the build that uses the C11 <stdatomic.h> flavour of nsync's atomic.h (platform/c11): the same
        # specification must describe it step for step
        exe11 = build("h_mu", flavour="c11")
        fam11 = [(n + "_c11", dict(c, _flavour="c11")) for n, c in muconfigs.family(prop, "quick") if not c.get("Binary")]
        run_family(run, exe11, prop, fam11, env=e, cap_tours=cap_tours)
        run.cov["flavours"] = ["gcc atomics (platform/gcc)", "C11 atomics (platform/c11), thorough tier"]
    # oracle-only exploration of richer programs under random and priority-based schedules
    nruns = 4000 if tier == "quick" else 100000
    for i, conf in enumerate(muconfigs.RANDOM.get(prop, [])):
        nr = conf.get("_runs", 0) * (1 if tier == "quick" else 10) or nruns
        res = run_harness_env(exe, ["random", str(nr), str(seed() + i), muconf.init_line(conf), REPLAYS], e)
        run.add("evaluations", nr); run.add("distinct_nontrivial", res["stats"].get("nontrivial", 0))
        run.cov.setdefault("random", []).append({"program": i, "threads": len(conf["progs"]), "runs": nr, "violations": len(res["viols"])})
        for v in res["viols"]:
            if v[0] in (ORACLE_OF.get(prop, set()) | ALWAYS):
                run.violation("%s|%s|random %d" % (v[0], v[1], i), v[4], v[5])
            else:
                run.note("oracle of another property fired in random program %d: %s %s: %s" % (i, v[0], v[1], v[5][:160]))
    if cap_tours:
        run.cov["tours_capped_at"] = cap_tours
        run.cov["exhaustive"] = False
    generated_phase(run, exe, prop, tier, e)
    fine_runs(run, exe, prop, tier, e)
    trace_phase(run, exe, prop, tier, e)
    liveness_phase(run, prop, tier)
    if post:
        post(run, exe, results, e)
    run.cov.setdefault("conformant", True)
    return run.finish()
