"""C05: what the timed / cancellable waits return.
L1 (Mu.tla): nsync_cv_wait_with_deadline / nsync_mu_wait_with_deadline over the real mu.c, cv.c, mu_wait.c with
nsync_sem_wait_with_cancel_ as one region.  L2 (Note.tla, procedure swc): nsync_sem_wait_with_cancel_ itself (sem_wait.c),
step by step against notifiers, the note's own expiry, the caller's deadline and semaphore wake-ups: it returns ECANCELED only
if the note has a reason to be notified, ETIMEDOUT only at or after the deadline, 0 only for a wake-up (RetHonest + O-ret)."""
from mulib import *
import l2lib, notelib


def l2_part(run, exe_unused, results, env):
    exe2 = build("h_l2")
    N = notelib
    ncf = [(n, dict(N.note_conf(c), _c=c)) for n, (props, t, c) in N.CONF.items() if "C05" in props and (t == "q" or run.tier == "thorough")]
    l2lib.run_family(run, exe2, "Note", "C05", ncf, lambda conf: N.consts_of(conf["_c"]), {"RetHonest"}, {"O-ret", "O-lin", "O-prog"})
    exer = build("h_l2r")
    l2lib.random_runs(run, exer, "Note", ncf, 1000 if run.tier == "quick" else 30000, "C05", {"O-ret", "O-lin", "O-prog"})
    l2lib.generated_notes(run, "C05", {"O-ret", "O-lin", "O-prog"})


def main(tier, replay=None):
    return mu_check("C05", tier, replay, post=l2_part,
                    extra_rule="; L2 part: nsync_sem_wait_with_cancel_ (sem_wait.c) step by step in Note.tla (procedure swc) over the ideal note lock")
