from mulib import mu_check


def main(tier, replay=None):
    return mu_check("C05", tier, replay)
