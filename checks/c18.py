"""C18: nsync_time arithmetic.  Time.tla: laws model-checked by TLC for a small radix (exhaustive), transcribed operators
evaluated by TLC for R = 10^9 on the 32-bit-safe boundary grid and compared with the real C and C++ functions; the wide
part of the grid (+-2^31 and beyond, all unsigned ms/us) is compared with 128-bit arithmetic in the driver."""
import subprocess
from common import *


def build_driver(lang):
    out = os.path.join(WORK, "c18_%s" % lang)
    inc = vbuild.includes(REPO, "c" if lang == "c" else "cpp")
    # the default builds use the platform's TLS-capable compiler.h, not gcc_no_tls
    inc = [i for i in inc if "gcc_no_tls" not in i]
    if lang == "c":
        cmd = ["gcc", "-O1", "-w", "-o", out, os.path.join(VERIF, "drv", "c18_driver.c"), os.path.join(REPO, "platform/posix/src/time_rep.c"),
               os.path.join(REPO, "internal/time_internal.c")] + inc
    else:
        cmd = ["g++", "-std=c++11", "-O1", "-w", "-x", "c++", "-o", out, os.path.join(VERIF, "drv", "c18_driver.c"),
               os.path.join(REPO, "platform/c++11/src/time_rep_timespec.cc"), os.path.join(REPO, "internal/time_internal.c")] + inc
    r = subprocess.run(cmd, stdout=subprocess.PIPE, stderr=subprocess.STDOUT, text=True)
    if r.returncode != 0:
        raise ToolFailure("building the C18 driver (%s) failed: %s" % (lang, r.stdout[-1500:]))
    return out


def main(tier, replay=None):
    run = Run("C18", tier, "exploration")
    os.makedirs(os.path.join(WORK, "tlc"), exist_ok=True)
    spec = os.path.join(SPEC, "Time.tla")
    # 1. the laws, exhaustively, for radix 10 (and 1000 in the thorough tier: ms split needs R divisible by 1000)
    laws = []
    for R, smax in ([(10, 5)] if tier == "quick" else [(10, 20), (1000, 2)]):
        cfg = os.path.join(WORK, "tlc", "Time_laws.cfg")
        open(cfg, "w").write("SPECIFICATION Spec\nCONSTANTS R = %d SMax = %d GridS = {0} GridN = {0} GridU = {0}\nINVARIANT Laws\nCHECK_DEADLOCK FALSE\n" % (R, smax))
        info = tlc_plain(spec, cfg, workers=8)
        if not info["ok"]:
            if info["violated"]:
                raise ToolFailure("TLC refutes the arithmetic laws on Time.tla's transcription (R=%d): the transcription or the law is wrong\n%s" % (R, info["out"][-1200:]))
            raise ToolFailure("TLC failed on Time.tla: " + info["out"][-1200:])
        laws.append({"R": R, "SMax": smax, "states": info["distinct"]})
    run.cov["laws_model_checked"] = laws
    # 1b. the same laws for the code's radix, R = 10^9, over ALL integer seconds, nanoseconds 0..R-1 and 32-bit ms/us arguments:
    #     discharged symbolically by Apalache on TimeA.tla (the operators of Time.tla written without records)
    import shutil, subprocess
    adir = os.path.join(WORK, "apalache"); os.makedirs(adir, exist_ok=True)
    shutil.copy(os.path.join(SPEC, "TimeA.tla"), adir)
    try:
        r = subprocess.run(["timeout", "600", "apalache-mc", "check", "--length=0", "--inv=Laws", "--out-dir=" + os.path.join(adir, "out"), "TimeA.tla"],
                           cwd=adir, stdout=subprocess.PIPE, stderr=subprocess.STDOUT, text=True)
        out = r.stdout
    except OSError as e:
        out = "apalache-mc could not be run: %s" % e
        r = None
    if r is not None and "The outcome is: NoError" in out:
        run.cov["laws_all_integers_R_1e9"] = "discharged by Apalache (TimeA.tla, invariant Laws, length 0)"
    elif r is not None and "The outcome is: Error" in out:
        raise ToolFailure("Apalache refutes a law of TimeA.tla for R = 10^9: the transcription or the law is wrong\n" + out[-1500:])
    else:
        run.note("Apalache did not decide TimeA.tla (%s); the laws rest on TLC's small-radix check and the grids" % out[-200:].replace("\n", " "))
    shutil.rmtree(os.path.join(adir, "out"), ignore_errors=True)
    # 2. R = 10^9: TLC evaluates the operators on the grid; the real functions must agree
    cfg = os.path.join(WORK, "tlc", "MC_Time.cfg")
    grid_s = "{0, 1, -1, 2, -2, 1073741823, -1073741823, 5, 1000}"
    grid_n = "{0, 1, 500000000, 999999999, 499999999, 999999998}"
    grid_u = "{0, 1, 999, 1000, 1001, 999999, 1000000, 1000001, 2147483647, 3600000, 86400000, 4294967, 4294968}"
    import shutil
    shutil.copy(spec, os.path.join(WORK, "tlc", "Time.tla"))
    open(os.path.join(WORK, "tlc", "MC_Time.tla"), "w").write("---- MODULE MC_Time ----\nEXTENDS Time\nMCGridS == %s\nMCGridN == %s\nMCGridU == %s\n====\n" % (grid_s, grid_n, grid_u))
    open(cfg, "w").write("SPECIFICATION EvalSpec\nCONSTANTS R = 1000000000 SMax = 0 GridS <- MCGridS GridN <- MCGridN GridU <- MCGridU\nCONSTRAINT Emit\nCHECK_DEADLOCK FALSE\n")
    spec = os.path.join(WORK, "tlc", "MC_Time.tla")
    info = tlc_plain(spec, cfg, workers=2, cwd=os.path.join(WORK, "tlc"))
    lines = []
    for l in info["out"].splitlines():
        if l.startswith('"['):
            rec = json.loads(json.loads(l))
            lines.append(rec[0] + " " + " ".join(str(x) for x in rec[1:]))
    if len(lines) < 100:
        raise ToolFailure("TLC produced no expectations from Time.tla: " + info["out"][-1200:])
    lines = sorted(set(lines))
    run.cov["tlc_evaluated_cases"] = len(lines)
    total = 0; nontriv = 0
    for lang in ("c", "cpp"):
        exe = build_driver(lang)
        r = subprocess.run([exe], input="\n".join(lines) + "\n", stdout=subprocess.PIPE, stderr=subprocess.PIPE, text=True, timeout=300)
        st = {}
        for l in r.stdout.splitlines():
            if l.startswith("STATS"):
                st = dict(kv.split("=") for kv in l.split()[1:])
        if r.returncode not in (0, 1) or not st:
            raise ToolFailure("C18 driver (%s) crashed: rc=%d %s %s" % (lang, r.returncode, r.stdout[-500:], r.stderr[-500:]))
        total += int(st["cases"]); nontriv += int(st["nontrivial"])
        if r.returncode == 1:
            bad = [l for l in r.stdout.splitlines() if l.startswith("FAIL")]
            rp = os.path.join(REPLAYS, "C18_%s.txt" % lang)
            open(rp, "w").write("\n".join(bad) + "\n")
            run.violation("O-diff|%s|%s" % (bad[0].split()[1], lang), rp, "%s build: %s" % (lang, bad[0]))
        run.sample({"build": lang, "cases": int(st["cases"]), "example": lines[len(lines) // 2]})
    run.cov["evaluations"] = total
    run.cov["distinct_nontrivial"] = nontriv
    run.cov["rule"] = ("a case is one (a, b) pair or one ms/us argument; TLC-evaluated expectations from Time.tla for the 32-bit-safe grid, 128-bit reference for the wide grid "
                       "(seconds up to +-2^61, all unsigned arguments incl. 20000 random ones), both for the C and the C++ build; non-trivial = needs a carry or borrow, or is a wide/duration case")
    run.assumptions += ["TLC integers are 32-bit: values of seconds beyond +-2^30 are checked against __int128 arithmetic in the driver, not against TLC",
                        "the algorithm is uniform in the radix: the laws are model-checked for radix 10 (and 1000), not 10^9"]
    return run.finish()
