"""Driver for the L2 specs (Counter.tla, Once.tla, Note.tla): ideal-lock harness h_l2, same pipeline as mulib."""
import os, shutil, json, re
from common import *
import muconf, mulib

MC = os.path.join(WORK, "mc2")


def lop(name, a=0, b=0, dl=0, **kw):
    d = dict(op=name, a=a, b=b, dl=dl, x=0, objs=[])
    d.update(kw)
    return d


def init_line(spec, conf):
    hd = lambda d: 0 if d == 9999 else d       # the harness writes "no deadline" as 0
    progs = ";".join(",".join("%s.%d.%d.%d.%d" % (o["op"], o.get("a", o.get("d", 0)), o.get("b", 0), hd(o.get("dl", 0)), o.get("x", 0)) for o in p) if p else "-" for p in conf["progs"])
    extra = " ".join("%s=%s" % (k, v) for k, v in conf.get("init", {}).items())
    return "spec=%s %s progs=%s" % (spec, extra, progs)


def write_mc(spec, name, conf, consts, export=True):
    os.makedirs(MC, exist_ok=True)
    for f in os.listdir(SPEC):
        if f.endswith(".tla") and not os.path.exists(os.path.join(MC, f)):
            shutil.copy(os.path.join(SPEC, f), os.path.join(MC, f))
    mod = "MC_%s_%s" % (spec, name)
    with open(os.path.join(MC, mod + ".tla"), "w") as f:
        f.write("---- MODULE %s ----\nEXTENDS %s\nMCProg == %s\n" % (mod, spec, muconf.tla_val(conf["progs"])))
        for k, v in conf.get("defs", {}).items():
            f.write("%s == %s\n" % (k, muconf.tla_val(v)))
        f.write("====\n")
    with open(os.path.join(MC, mod + ".cfg"), "w") as f:
        f.write("SPECIFICATION SpecU\nCONSTANTS\n  N = %d\n  Prog <- MCProg\n" % len(conf["progs"]))
        for k, v in consts.items():
            f.write("  %s = %s\n" % (k, muconf.tla_val(v)))
        for k in conf.get("defs", {}):
            f.write("  %s <- %s\n" % (k[2:], k))
        f.write("  defaultInitValue = 0\n")
        if export:
            f.write("CONSTRAINT InitPrint\nACTION_CONSTRAINT Edge\n")
        f.write("CHECK_DEADLOCK FALSE\n")
    return os.path.join(MC, mod + ".tla"), os.path.join(MC, mod + ".cfg")


def run_config(run, exe, spec, name, conf, consts, prop, workers=3, env=None, cap_tours=None):
    tla, cfg = write_mc(spec, name, conf, consts)
    # conf["_sim"] = (behaviours per worker, depth): configuration too large for breadth-first search, behaviours from TLC's simulation mode
    budget = int(os.environ.get("VERIF_BFS_BUDGET", "1500"))
    sim = conf.get("_sim")
    if sim and run.tier == "thorough":
        sim = (sim[0] * 10, sim[1])          # ten times as many simulated behaviours in the thorough tier
    g, info = tlcgraph.run_tlc_graph(tla, cfg, workers=workers, cwd=MC, timeout=3000 if sim else budget, simulate=sim, sim_seed=seed())
    if not conf.get("_sim") and info.get("rc") == 124:
        run.note("configuration %s/%s: breadth-first search exceeded %d s; using simulation-mode behaviours instead" % (spec, name, budget))
        run.cov.setdefault("bfs_fallback_to_simulation", []).append(spec + "/" + name)
        g, info = tlcgraph.run_tlc_graph(tla, cfg, workers=workers, cwd=MC, timeout=3000, simulate=(150, 800), sim_seed=seed())
    if not info["ok"] and not info["violated"]:
        raise ToolFailure("TLC failed on %s/%s: %s" % (spec, name, "\n".join(info["log"][-40:])))
    # every transition is replayed once, up to a bound on the number of behaviours (the largest thorough-tier graphs would otherwise
    # take hours to replay); a capped configuration is recorded as such
    maxt = cap_tours or int(os.environ.get("VERIF_MAX_TOURS", "60000"))
    tours = tlcgraph.build_tours(g, cap_tours=maxt)
    if len(tours) >= maxt:
        run.cov.setdefault("tours_capped", []).append({"config": name, "tours": len(tours), "transitions": len(g.edges)})
    sched = os.path.join(WORK, "tlc", "l2_%s_%s.sched" % (spec, name))
    init = init_line(spec.lower(), conf)
    steps = tlcgraph.write_schedule(sched, g, tours, init, obs_fmt=tlcgraph.fmt_obs_noghost)
    e = dict(os.environ, VERIF_PROP=prop)
    e.setdefault("VERIF_HB", "1")      # race detector on nsync's own plain accesses (see mulib.run_config)
    if prop != "C03":
        e.setdefault("VERIF_SOFT", "O-hb")
    if env:
        e.update(env)
    res = mulib.run_harness_env(exe, ["replay", sched, REPLAYS], e)
    out = dict(info=info, g=g, res=res, tours=len(tours), steps=steps, sched=sched, init=init, tour_list=tours, env=e)
    out["findings"] = tlcgraph.analyse(g)
    return out


def run_family(run, exe, spec, prop, configs, consts_of, wanted_inv, wanted_or, parallel=5, workers=3, env=None):
    import concurrent.futures as cf

    def one(item):
        name, conf = item
        return name, conf, run_config(run, exe, spec, name, conf, consts_of(conf), prop, workers=workers, env=env)
    with cf.ThreadPoolExecutor(parallel) as ex:
        results = list(ex.map(one, configs))
    for name, conf, out in results:
        mulib.account(run, spec + "/" + name, out)
        for v in out["res"]["viols"]:
            sig = "%s|%s|%s" % (v[0], v[1], name)
            if v[0] in wanted_or or v[0] == "O-crash":
                run.violation(sig, v[4], v[5])
            else:
                run.note("oracle of another property fired in %s: %s %s: %s" % (name, v[0], v[1], v[5][:160]))
        for k, f in enumerate(out["findings"]):
            tag = "TLC|%s|%s|%s|%s" % (f["name"], f["label"], "+".join(f["taints"]) or "untainted", name)
            if f["name"] not in wanted_inv:
                run.note("spec-level refutation outside this property: " + tag)
                continue
            path = os.path.join(REPLAYS, "%s_%s_%s_%d.sched" % (prop, name, f["name"], k))
            tlcgraph.write_schedule(path, out["g"], [f["path"]], out["init"], obs_fmt=tlcgraph.fmt_obs_noghost)
            res = mulib.run_harness_env(exe, ["replay", path, REPLAYS], out["env"])
            if res["viols"]:
                v = res["viols"][0]
                run.violation(tag, path, "%s refutes %s in %s; on the code: oracle %s in %s: %s" % (spec, f["name"], name, v[0], v[1], v[5]))
            elif res["stats"].get("matched", 0) == 1:
                run.violation(tag, path, "%s refutes %s in configuration %s; the real code follows the counterexample in lock-step to the end (label %s)" % (spec, f["name"], name, f["label"]))
            else:
                run.note("spec-level refutation NOT reproduced on the code (%s): %s" % (tag, res["mismatch"]))
        foreign_ls = sorted(({v[0] for v in out["res"]["viols"]} | {x.split()[1].split("|")[0] for x in out["res"].get("soft", []) if len(x.split()) > 1}) - set(wanted_or) - {"O-crash", "O-harness"})
        if out["res"].get("soft"):
            run.note("oracle of another property counted in %s/%s (the replays went on): %s" % (spec, name, out["res"]["soft"][0][:200]))
        if (out["res"]["mismatch"] or foreign_ls) and mulib.explore_allowed(run):
            _t_ex = time.time()
            mulib.continue_divergences(run, exe, name, out, set(wanted_or) | {"O-crash"})
            nloc = 20000 if run.tier == "quick" else 300000
            resx = mulib.run_harness_env(exe, ["random", str(nloc), str(seed() + 7), out["init"], REPLAYS], out["env"], timeout=mulib.explore_budget(run), soft=True)
            run.add("evaluations", nloc); run.add("distinct_nontrivial", resx["stats"].get("nontrivial", 0))
            run.cov.setdefault("local_exploration_after_divergence", []).append({"config": name, "runs": nloc, "violations": len(resx["viols"])})
            hit = False
            for v in resx["viols"]:
                if v[0] in wanted_or or v[0] == "O-crash":
                    run.violation("%s|%s|explore %s" % (v[0], v[1], name), v[4], v[5]); hit = True
            foreign = sorted(({v[0] for v in resx["viols"]} | set(foreign_ls)) - set(wanted_or) - {"O-crash", "O-harness"})
            if foreign and not hit:
                # only another property's oracle fired: switch it off and see what the fault does to this property; plain accesses to shared
                # memory become scheduling points too, since the fault may be a race between plain accesses
                resy = mulib.run_harness_env(exe, ["random", str(nloc * 10), str(seed() + 8), "plain=1 ignore=%s " % ",".join(foreign) + out["init"], REPLAYS], dict(out["env"], VERIF_IGNORE=",".join(foreign), VERIF_PLAIN="1"), timeout=mulib.explore_budget(run), soft=True)
                run.add("evaluations", nloc * 10)
                run.cov["local_exploration_after_divergence"].append({"config": name, "runs": nloc * 10, "violations": len(resy["viols"]), "ignoring": foreign})
                for v in resy["viols"]:
                    if v[0] in wanted_or or v[0] == "O-crash":
                        run.violation("%s|%s|explore %s" % (v[0], v[1], name), v[4], v[5])
            mulib.preemption_bounded(run, exe, "%s/%s" % (spec, name), out["init"], len(conf["progs"]), out["env"], set(wanted_or) | {"O-crash"}, foreign if (foreign and not hit) else [])
            mulib._explore_spent[0] += time.time() - _t_ex
        try:
            os.unlink(out["sched"])
        except OSError:
            pass
    return results


def random_runs(run, exe, spec, configs, runs, prop, wanted_or, harness_env=None):
    """oracle-only exploration under random schedules (also used with the real-lock link variant h_l2r)"""
    e = dict(os.environ, VERIF_PROP=prop)
    if harness_env:
        e.update(harness_env)
    for name, conf in configs:
        res = mulib.run_harness_env(exe, ["random", str(runs), str(seed()), init_line(spec.lower(), conf).replace(" ", " harness=%s " % os.path.basename(exe), 1), REPLAYS], e)
        run.add("evaluations", runs); run.add("distinct_nontrivial", res["stats"].get("nontrivial", 0))
        run.cov.setdefault("random", []).append({"config": name, "runs": runs, "violations": len(res["viols"]), "harness": os.path.basename(exe)})
        for v in res["viols"]:
            if v[0] in wanted_or or v[0] == "O-crash":
                run.violation("%s|%s|random %s" % (v[0], v[1], name), v[4], v[5])
            else:
                run.note("oracle of another property fired in random %s: %s %s: %s" % (name, v[0], v[1], v[5][:160]))


def generated_notes(run, prop, wanted_or):
    """Generated note programs (tools/genprog.py gennote): random trees of 1-4 notes with deadlines, 2-4 threads of wait / nsync_wait_n over
    notes and the counter (incl. the 5-object heap path) / nsync_sem_wait_with_cancel_ / poll / new+use+free / notify, with a finisher that
    notifies every root, so every thread must finish; random and priority-based schedules, oracles on; alternately with the real mu.c
    underneath (h_l2r) and with the ideal lock (h_l2).  Frees that race with a notify of a relative that has children are left to the
    hand-written configurations (recorded findings 6.4-6.6)."""
    import genprog, notelib, concurrent.futures as cf
    nprog = int(os.environ.get("VERIF_GENPROGS", 120 if run.tier == "quick" else 1200))
    nruns = 400 if run.tier == "quick" else 4000
    base = seed() * 100000
    exes = {"h_l2r": build("h_l2r"), "h_l2": build("h_l2")}
    e = dict(os.environ, VERIF_PROP=prop)

    def one(i):
        hn = "h_l2r" if i % 2 == 0 else "h_l2"
        c = genprog.gennote(base + i, prop)
        init = init_line("note", notelib.note_conf(c)).replace(" ", " harness=%s " % hn, 1)
        return i, hn, mulib.run_harness_env(exes[hn], ["random", str(nruns), str(base + i), init, REPLAYS], e)
    nv = 0
    with cf.ThreadPoolExecutor(8) as ex:
        for i, hn, res in ex.map(one, range(nprog)):
            run.add("evaluations", nruns); run.add("distinct_nontrivial", res["stats"].get("nontrivial", 0))
            for v in res["viols"]:
                if v[0] in wanted_or or v[0] == "O-crash":
                    nv += 1
                    run.violation("%s|%s|generated note program %d (%s)" % (v[0], v[1], base + i, hn), v[4], v[5])
                else:
                    run.note("oracle of another property fired in generated note program %d: %s %s: %s" % (base + i, v[0], v[1], v[5][:160]))
    # code -> spec: executions of the first generated programs on the ideal-lock harness are recorded and validated against NoteTrace.tla
    ntrace = 6 if run.tier == "quick" else 40
    os.makedirs(MC, exist_ok=True)
    shutil.copy(os.path.join(SPEC, "NoteTrace.tla"), os.path.join(MC, "NoteTrace.tla"))

    def tone(i):
        c = genprog.gennote(base + i, prop)
        conf = dict(notelib.note_conf(c), _c=c)
        tr = os.path.join(WORK, "tlc", "ntrace_%s_%d.ndjson" % (prop, i))
        os.makedirs(os.path.dirname(tr), exist_ok=True)
        init = init_line("note", conf)
        mulib.run_harness_env(exes["h_l2"], ["random", "30", str(base + 900 + i), init, REPLAYS, tr], e)
        nlines = sum(1 for _ in open(tr))
        tla, cfg = write_mc("Note", "tr_%s_%d" % (prop, i), conf, notelib.consts_of(c), export=False)
        # the same MC module, but extending the trace specification
        txt = open(tla).read().replace("EXTENDS Note\n", "EXTENDS NoteTrace\n")
        open(tla, "w").write(txt)
        ctxt = open(cfg).read().replace("SPECIFICATION SpecU", "SPECIFICATION TraceSpec") + "INVARIANT TraceInv\nCONSTRAINT Progress\nPOSTCONDITION Accepted\n"
        open(cfg, "w").write(ctxt)
        info = tlc_plain(tla, cfg, workers=1, cwd=MC, env=dict(os.environ, TRACE=tr), timeout=900)
        m = re.search(r'<<"matched", (\d+), "of", (\d+)>>', info["out"])
        os.unlink(tr)
        return i, c, nlines, int(m.group(1)) if m else 0, info
    with cf.ThreadPoolExecutor(4) as ex:
        for i, c, nlines, matched, info in ex.map(tone, range(ntrace)):
            acc = info["ok"] and matched == nlines
            run.cov.setdefault("recorded_traces", []).append({"program": "generated note program %d" % (base + i), "threads": len(c["progs"]), "executions": 30, "events": nlines,
                                                              "matched": matched, "accepted": acc, "states": info["distinct"], "spec": "NoteTrace.tla"})
            if acc:
                run.add("traces_validated_against_impl", 30)
            elif info["violated"] and info["violated"] not in ("Deadlock",):
                run.violation("TLC|%s|recorded trace of generated note program %d" % (info["violated"], base + i), "-",
                              "an invariant of Note.tla fails on a state of a recorded execution of the real code (matched %d of %d events): %s" % (matched, nlines, info["out"][-300:]))
            else:
                run.note("DIVERGENCE: recorded executions of generated note program %d are not behaviours of Note.tla (longest matched prefix %d of %d events); not a violation by itself" % (base + i, matched, nlines))
                run.cov["conformant"] = False
    run.cov["generated_note_programs"] = {"programs": nprog, "schedules_each": nruns, "harnesses": "h_l2r (real mu.c) and h_l2 (ideal lock), alternating",
                                          "generator": "tools/genprog.py gennote (seed %d..%d, focus %s)" % (base, base + nprog - 1, prop), "violations": nv}


def trace_validate(run, exe, spec, configs, consts_of, invariants, prop, nexec=30):
    """code -> spec for an L2 specification: executions of each configuration's program on the ideal-lock harness under random schedules are
    recorded (thread, kind of operation, a few state words) and validated against <spec>Trace.tla; `invariants` are evaluated in every
    matched state.  A rejection is a divergence (reported, not a violation); a failed invariant on a matched state is a violation."""
    import concurrent.futures as cf
    os.makedirs(MC, exist_ok=True); os.makedirs(os.path.join(WORK, "tlc"), exist_ok=True)
    shutil.copy(os.path.join(SPEC, spec + "Trace.tla"), os.path.join(MC, spec + "Trace.tla"))
    e = dict(os.environ, VERIF_PROP=prop)

    def one(item):
        name, conf = item
        tr = os.path.join(WORK, "tlc", "l2trace_%s_%s.ndjson" % (spec, name))
        mulib.run_harness_env(exe, ["random", str(nexec), str(seed() + 31), init_line(spec.lower(), conf), REPLAYS, tr], e)
        nlines = sum(1 for _ in open(tr))
        tla, cfg = write_mc(spec, "tr_" + name, conf, consts_of(conf), export=False)
        txt = open(tla).read().replace("EXTENDS %s\n" % spec, "EXTENDS %sTrace\n" % spec)
        open(tla, "w").write(txt)
        ctxt = open(cfg).read().replace("SPECIFICATION SpecU", "SPECIFICATION TraceSpec") + "".join("INVARIANT %s\n" % i for i in invariants) + "CONSTRAINT Progress\nPOSTCONDITION Accepted\n"
        open(cfg, "w").write(ctxt)
        info = tlc_plain(tla, cfg, workers=1, cwd=MC, env=dict(os.environ, TRACE=tr), timeout=900)
        m = re.search(r'<<"matched", (\d+), "of", (\d+)>>', info["out"])
        os.unlink(tr)
        return name, conf, nlines, int(m.group(1)) if m else 0, info
    with cf.ThreadPoolExecutor(4) as ex:
        for name, conf, nlines, matched, info in ex.map(one, configs):
            acc = info["ok"] and matched == nlines
            run.cov.setdefault("recorded_traces", []).append({"program": "%s/%s" % (spec, name), "threads": len(conf["progs"]), "executions": nexec, "events": nlines,
                                                              "matched": matched, "accepted": acc, "states": info["distinct"], "spec": spec + "Trace.tla"})
            if acc:
                run.add("traces_validated_against_impl", nexec)
            elif info["violated"] and info["violated"] != "Deadlock":
                run.violation("TLC|%s|recorded trace of %s/%s" % (info["violated"], spec, name), "-",
                              "an invariant of %s.tla fails on a state of a recorded execution of the real code (matched %d of %d events): %s" % (spec, matched, nlines, info["out"][-300:]))
            else:
                run.note("DIVERGENCE: recorded executions of %s/%s are not behaviours of %s.tla (longest matched prefix %d of %d events); not a violation by itself" % (spec, name, spec, matched, nlines))
                run.cov["conformant"] = False
