"""C12: the per-thread semaphore never loses a post.  Sem.tla model-checked; every transition of
every configuration replayed in lock-step on the real nsync_semaphore_futex.c (modelled futex)."""
import os
from common import *


def configs(tier):
    base = dict(AcceptEarlyTimeout=False, WakeOnV=True, defaultInitValue=0)
    cs = [dict(NP=1, WOps=1, POps=1, Timed=False, DL=1, MaxNow=0, F=1),
          dict(NP=2, WOps=2, POps=1, Timed=False, DL=1, MaxNow=0, F=2),
          dict(NP=1, WOps=2, POps=2, Timed=True, DL=1, MaxNow=2, F=2),
          dict(NP=2, WOps=2, POps=1, Timed=True, DL=1, MaxNow=2, F=2)]
    if tier == "thorough":
        cs += [dict(NP=2, WOps=3, POps=2, Timed=False, DL=1, MaxNow=0, F=3),
               dict(NP=2, WOps=2, POps=2, Timed=True, DL=2, MaxNow=3, F=3),
               dict(NP=2, WOps=3, POps=1, Timed=True, DL=1, MaxNow=2, F=3)]
    return [dict(base, **c) for c in cs]


def mutex_cond_part(run, tier):
    """the other semaphore of the repository: mutex + condition variable (platform/posix/src/nsync_semaphore_mutex.c, and the same
    algorithm in the C++11 build), binary; SemMC.tla, every transition replayed on the real file over a modelled pthread layer"""
    exe = build("h_semm")
    cs = [dict(NP=1, WOps=1, POps=1, Timed=False, DL=1, MaxNow=0, F=1),
          dict(NP=2, WOps=2, POps=1, Timed=False, DL=1, MaxNow=0, F=2),
          dict(NP=1, WOps=2, POps=2, Timed=True, DL=1, MaxNow=2, F=2),
          dict(NP=2, WOps=2, POps=1, Timed=True, DL=1, MaxNow=2, F=2)]
    if tier == "thorough":
        cs += [dict(NP=2, WOps=3, POps=2, Timed=False, DL=1, MaxNow=0, F=3),
               dict(NP=2, WOps=2, POps=2, Timed=True, DL=2, MaxNow=3, F=3)]
    wanted = {"Binary", "NoFreeSuccess", "TimeoutHonest", "NoLostPost", "PendingIsVisible", "NoStuck"}
    for ci, c in enumerate(cs):
        c = dict(c, defaultInitValue=0)
        cfg = os.path.join(WORK, "tlc", "MC_SemMC_%d.cfg" % ci)
        write_cfg(cfg, "SpecU", c, [], constraints=["InitPrint"], action_constraints=["Edge"])
        g, info = tlcgraph.run_tlc_graph(os.path.join(SPEC, "SemMC.tla"), cfg, workers=4, cwd=SPEC)
        if not info["ok"]:
            raise ToolFailure("TLC failed on SemMC.tla: " + "\n".join(info["log"][-30:]))
        tours = tlcgraph.build_tours(g)
        sched = os.path.join(WORK, "tlc", "semmc_%d.sched" % ci)
        init = "harness=h_semm " + " ".join("%s=%s" % (k, int(v) if isinstance(v, bool) else v) for k, v in c.items())
        steps = tlcgraph.write_schedule(sched, g, tours, init, obs_fmt=tlcgraph.fmt_obs_noghost)
        res = run_harness(exe, [sched, REPLAYS])
        st = res["stats"]
        run.add("states", info["distinct"]); run.add("transitions", len(g.edges))
        run.add("traces_validated_against_impl", st.get("matched", 0))
        run.add("evaluations", st.get("tours", 0)); run.add("distinct_nontrivial", st.get("nontrivial", 0))
        run.add("transitions_replayed", steps)
        run.cov["configs"].append({"spec": "SemMC", "constants": init, "states": info["distinct"], "transitions": len(g.edges), "tours": len(tours),
                                   "matched": st.get("matched", 0), "diverged": st.get("diverged", 0), "tlc_wall_s": round(info["wall"], 1)})
        if res["mismatch"]:
            run.note("DIVERGENCE in SemMC (spec/code, not a violation by itself): " + res["mismatch"])
            run.cov["conformant"] = False
        for v in res["viols"]:
            run.violation("%s|%s|mutex-cond" % (v[0], v[1]), v[4], v[5])
        for k, f in enumerate(tlcgraph.analyse(g)):
            tag = "TLC|%s|%s|SemMC %d" % (f["name"], f["label"], ci)
            if f["name"] not in wanted:
                continue
            path = os.path.join(REPLAYS, "C12_semmc%d_%s_%d.sched" % (ci, f["name"], k))
            tlcgraph.write_schedule(path, g, [f["path"]], init, obs_fmt=tlcgraph.fmt_obs_noghost)
            r2 = run_harness(exe, [path, REPLAYS])
            if r2["viols"] or r2["stats"].get("matched", 0) == 1:
                run.violation(tag, path, "SemMC.tla refutes %s; replayed on the real nsync_semaphore_mutex.c: %s" % (f["name"], r2["viols"][0][5] if r2["viols"] else "the code follows the counterexample in lock-step to the end"))
        for k, df in enumerate(res.get("divfiles", [])[:4]):
            # the diverging behaviour continued with random schedules, plain accesses to the semaphore's word as scheduling points too
            # (a store moved out of the mutex races with the waiter's reads)
            rz = run_harness(exe, ["from", df, "2000", str(seed() + k), REPLAYS], env={"VERIF_PLAIN": "1"})
            run.add("evaluations", 2000)
            for v in rz["viols"]:
                run.violation("%s|%s|mutex-cond continue" % (v[0], v[1]), v[4], v[5])
        os.unlink(sched)


def main(tier, replay=None):
    run = Run("C12", tier, "model_checking")
    exe = build("h_sem")
    if replay:
        rexe, renv = replay_target(replay, "h_sem")
        res = run_harness(rexe, [replay, REPLAYS], env=renv)
        for v in res["viols"]:
            run.violation("%s|%s" % (v[0], v[1]), replay, v[5])
        return run.finish()
    run.cov["rule"] = ("each case is one behaviour (tour) of Sem.tla from the initial state to a terminal state, replayed in "
                       "lock-step on the real semaphore; together the tours take every transition TLC generated; "
                       "non-trivial = contains a failed CAS, a kernel wait or an injected early return")
    run.cov["exhaustive"] = True
    run.cov["configs"] = []
    run.assumptions += ["futex modelled: value check + sleep atomic, wake(1) wakes at most one sleeper, absolute timeouts on a virtual clock",
                        "one waiter per semaphore (nsync uses one semaphore per thread)",
                        "sequentially consistent interleavings of the atomic operations"]
    for ci, c in enumerate(configs(tier)):
        cfg = os.path.join(WORK, "tlc", "MC_Sem_%d.cfg" % ci)
        write_cfg(cfg, "SpecE", c, ["Conservation", "NoFreeSuccess", "TimeoutHonest", "NoLostPost"],
                  constraints=["InitPrint"], action_constraints=["Edge"])
        g, info = tlcgraph.run_tlc_graph(os.path.join(SPEC, "Sem.tla"), cfg, workers=8, cwd=SPEC)
        if not info["ok"]:
            if info["violated"]:
                raise ToolFailure("TLC refuted %s on Sem.tla with the constants of the unmodified design (spec error?)\n%s" % (info["violated"], "\n".join(info["log"][-40:])))
            raise ToolFailure("TLC failed: " + "\n".join(info["log"][-30:]))
        tours = tlcgraph.build_tours(g)
        sched = os.path.join(WORK, "tlc", "sem_%d.sched" % ci)
        init = " ".join("%s=%s" % (k, int(v) if isinstance(v, bool) else v) for k, v in c.items())
        steps = tlcgraph.write_schedule(sched, g, tours, init)
        res = run_harness(exe, [sched, REPLAYS])
        st = res["stats"]
        run.add("states", info["distinct"]); run.add("transitions", len(g.edges))
        run.add("traces_validated_against_impl", st.get("matched", 0))
        run.add("evaluations", st.get("tours", 0)); run.add("distinct_nontrivial", st.get("nontrivial", 0))
        run.add("transitions_replayed", steps)
        run.cov["configs"].append({"constants": init, "states": info["distinct"], "transitions": len(g.edges), "tours": len(tours),
                                   "matched": st.get("matched", 0), "diverged": st.get("diverged", 0), "tlc_wall_s": round(info["wall"], 1)})
        if tours:
            t = tours[len(tours) // 2]
            run.sample({"config": init, "behaviour": ["%d:%s" % (g.edges[e][2], g.edges[e][3]) for e in t][:60]})
        if res["mismatch"]:
            run.note("DIVERGENCE (spec/code, not a violation by itself): " + res["mismatch"])
            run.cov["conformant"] = False
        for v in res["viols"]:
            run.violation("%s|%s" % (v[0], v[1]), v[4], v[5])
        os.unlink(sched)
    mutex_cond_part(run, tier)
    run.cov.setdefault("conformant", True)
    if tier == "thorough" or True:
        # liveness under fairness on the smallest timed and untimed configurations
        for c in configs("quick")[:1] + configs("quick")[2:3]:
            cfg = os.path.join(WORK, "tlc", "MC_Sem_live.cfg")
            write_cfg(cfg, "FairSpecE", c, [], props=["WaiterReturns"])
            info = tlc_plain(os.path.join(SPEC, "Sem.tla"), cfg, workers=4)
            if not info["ok"]:
                raise ToolFailure("liveness check failed on Sem.tla: " + info["out"][-1500:])
            run.add("liveness_states", info["distinct"])
    return run.finish()
