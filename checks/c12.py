"""C12: the per-thread semaphore never loses a post.  Sem.tla model-checked; every transition of
every configuration replayed in lock-step on the real nsync_semaphore_futex.c (modelled futex)."""
import os
from common import *


def configs(tier):
    base = dict(AcceptEarlyTimeout=False, WakeOnV=True, defaultInitValue=0)
    cs = [dict(NP=1, WOps=1, POps=1, Timed=False, DL=1, MaxNow=0, F=1),
          dict(NP=2, WOps=2, POps=1, Timed=False, DL=1, MaxNow=0, F=2),
          dict(NP=1, WOps=2, POps=2, Timed=True, DL=1, MaxNow=2, F=2),
          dict(NP=2, WOps=2, POps=1, Timed=True, DL=1, MaxNow=2, F=2)]
    if tier == "thorough":
        cs += [dict(NP=2, WOps=3, POps=2, Timed=False, DL=1, MaxNow=0, F=3),
               dict(NP=2, WOps=2, POps=2, Timed=True, DL=2, MaxNow=3, F=3),
               dict(NP=2, WOps=3, POps=1, Timed=True, DL=1, MaxNow=2, F=3)]
    return [dict(base, **c) for c in cs]


def main(tier, replay=None):
    run = Run("C12", tier, "model_checking")
    exe = build("h_sem")
    if replay:
        res = run_harness(exe, [replay, REPLAYS])
        for v in res["viols"]:
            run.violation("%s|%s" % (v[0], v[1]), replay, v[5])
        return run.finish()
    run.cov["rule"] = ("each case is one behaviour (tour) of Sem.tla from the initial state to a terminal state, replayed in "
                       "lock-step on the real semaphore; together the tours take every transition TLC generated; "
                       "non-trivial = contains a failed CAS, a kernel wait or an injected early return")
    run.cov["exhaustive"] = True
    run.cov["configs"] = []
    run.assumptions += ["futex modelled: value check + sleep atomic, wake(1) wakes at most one sleeper, absolute timeouts on a virtual clock",
                        "one waiter per semaphore (nsync uses one semaphore per thread)",
                        "sequentially consistent interleavings of the atomic operations"]
    for ci, c in enumerate(configs(tier)):
        cfg = os.path.join(WORK, "tlc", "MC_Sem_%d.cfg" % ci)
        write_cfg(cfg, "SpecE", c, ["Conservation", "NoFreeSuccess", "TimeoutHonest", "NoLostPost"],
                  constraints=["InitPrint"], action_constraints=["Edge"])
        g, info = tlcgraph.run_tlc_graph(os.path.join(SPEC, "Sem.tla"), cfg, workers=8, cwd=SPEC)
        if not info["ok"]:
            if info["violated"]:
                raise ToolFailure("TLC refuted %s on Sem.tla with the constants of the unmodified design (spec error?)\n%s" % (info["violated"], "\n".join(info["log"][-40:])))
            raise ToolFailure("TLC failed: " + "\n".join(info["log"][-30:]))
        tours = tlcgraph.build_tours(g)
        sched = os.path.join(WORK, "tlc", "sem_%d.sched" % ci)
        init = " ".join("%s=%s" % (k, int(v) if isinstance(v, bool) else v) for k, v in c.items())
        steps = tlcgraph.write_schedule(sched, g, tours, init)
        res = run_harness(exe, [sched, REPLAYS])
        st = res["stats"]
        run.add("states", info["distinct"]); run.add("transitions", len(g.edges))
        run.add("traces_validated_against_impl", st.get("matched", 0))
        run.add("evaluations", st.get("tours", 0)); run.add("distinct_nontrivial", st.get("nontrivial", 0))
        run.add("transitions_replayed", steps)
        run.cov["configs"].append({"constants": init, "states": info["distinct"], "transitions": len(g.edges), "tours": len(tours),
                                   "matched": st.get("matched", 0), "diverged": st.get("diverged", 0), "tlc_wall_s": round(info["wall"], 1)})
        if tours:
            t = tours[len(tours) // 2]
            run.sample({"config": init, "behaviour": ["%d:%s" % (g.edges[e][2], g.edges[e][3]) for e in t][:60]})
        if res["mismatch"]:
            run.note("DIVERGENCE (spec/code, not a violation by itself): " + res["mismatch"])
            run.cov["conformant"] = False
        for v in res["viols"]:
            run.violation("%s|%s" % (v[0], v[1]), v[4], v[5])
        os.unlink(sched)
    run.cov.setdefault("conformant", True)
    if tier == "thorough" or True:
        # liveness under fairness on the smallest timed and untimed configurations
        for c in configs("quick")[:1] + configs("quick")[2:3]:
            cfg = os.path.join(WORK, "tlc", "MC_Sem_live.cfg")
            write_cfg(cfg, "FairSpecE", c, [], props=["WaiterReturns"])
            info = tlc_plain(os.path.join(SPEC, "Sem.tla"), cfg, workers=4)
            if not info["ok"]:
                raise ToolFailure("liveness check failed on Sem.tla: " + info["out"][-1500:])
            run.add("liveness_states", info["distinct"])
    return run.finish()
