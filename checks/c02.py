"""C02: no deadlock, no lost lock wake-up.
Mu.tla exhaustively on 2-3 thread lock/rlock/trylock/unlock programs (every transition replayed, stuck terminal states judged on
the code), random programs of 5 threads, recorded traces.  Plus: 4-thread programs on a build with LONG_WAIT_THRESHOLD = 2
(guarded hook), where the long-wait escalation interacts with reader batches and woken waiters: too large for breadth-first
search, so TLC's simulation mode supplies behaviours (every successor it generates along the way is replayed once);
behaviours in which the code leaves the specification are continued from that point with random schedules (O-prog)."""
from mulib import *
import muconfigs


def sim_part(run, exe_unused, results, env):
    K2 = 2
    exe2 = build("h_mu", extra_defs=kdefs(K2))
    num = int(os.environ.get("VERIF_SIMNUM", {"quick": 30, "thorough": 400}[run.tier]))
    progs = {"sim_k2_wrrw": [P("L", "U"), P("R", "RU", "R", "RU"), P("R", "RU", "R", "RU"), P("L", "U", "L", "U", "L", "U")],
             "sim_k2_wwrt": [P("L", "U", "L", "U"), P("L", "U", "R", "RU"), P("R", "RU", "L", "U"), P("T", "RT", "L", "U")]}
    fam = [(n, dict(progs=p, NV=1, K=K2, kthr=K2, _sim=(num, 700))) for n, p in progs.items()]
    run_family(run, exe2, "C02", fam, env=env, workers=4, parallel=2)
    run.cov["simulated_configurations"] = {"K": K2, "behaviours_per_worker": num, "workers": 4, "depth": 700}


def main(tier, replay=None):
    return mu_check("C02", tier, replay, post=sim_part,
                    extra_rule="; 4-thread programs on the LONG_WAIT_THRESHOLD=2 build: behaviours from TLC's simulation mode, every generated transition replayed in lock-step")
