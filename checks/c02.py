"""C02: no deadlock, no lost lock wake-up.
Mu.tla exhaustively on 2-3 thread lock/rlock/trylock/unlock programs (every transition replayed, stuck terminal states judged on
the code), random programs of 5 threads, recorded traces.  Plus: 4-thread programs on a build with LONG_WAIT_THRESHOLD = 2
(guarded hook), where the long-wait escalation interacts with reader batches and woken waiters: too large for breadth-first
search, so TLC's simulation mode supplies behaviours (every successor it generates along the way is replayed once);
behaviours in which the code leaves the specification are continued from that point with random schedules (O-prog)."""
from mulib import *
import muconfigs


def sim_part(run, exe_unused, results, env):
    K2 = 2
    exe2 = build("h_mu", extra_defs=kdefs(K2))
    num = int(os.environ.get("VERIF_SIMNUM", {"quick": 30, "thorough": 400}[run.tier]))
    progs = {"sim_k2_wrrw": [P("L", "U"), P("R", "RU", "R", "RU"), P("R", "RU", "R", "RU"), P("L", "U", "L", "U", "L", "U")],
             "sim_k2_wwrt": [P("L", "U", "L", "U"), P("L", "U", "R", "RU"), P("R", "RU", "L", "U"), P("T", "RT", "L", "U")]}
    fam = [(n, dict(progs=p, NV=1, K=K2, kthr=K2, _sim=(num, 700))) for n, p in progs.items()]
    run_family(run, exe2, "C02", fam, env=env, workers=4, parallel=2)
    # finding 6.9 (a timed-out conditional waiter that was woken as designated waker spun for ever on MU_LONG_WAIT set by a sleeping long
    # waiter): the generated program it was found with, kept as a fixed scenario of the K = 2 build
    import genprog
    conf = dict(genprog.gen(100021, "C02"), kthr=K2)
    res = run_harness_env(exe2, ["random", "12000" if run.tier == "quick" else "120000", str(seed()), muconf.init_line(conf), REPLAYS], dict(os.environ, VERIF_PROP="C02"))
    run.add("evaluations", 12000 if run.tier == "quick" else 120000)
    run.cov.setdefault("random", []).append({"program": "K=2: reader/writer lockers + timed conditional waiter + setter (6.9)", "threads": len(conf["progs"]), "violations": len(res["viols"])})
    for v in res["viols"]:
        if v[0] in ("O-prog", "O-crash"):
            run.violation("%s|%s|k2 timed waiter" % (v[0], v[1]), v[4], v[5])
    pool_part(run)
    run.cov["simulated_configurations"] = {"K": K2, "behaviours_per_worker": num, "workers": 4, "depth": 700}


def pool_part(run, prop="C02", env=None, on_res=None, wanted_or=None):
    """the waiter pool every slow path draws from (common.c nsync_waiter_new_/free_/waiter_destroy + its spinlock), which the Mu.tla
    harness runs atomically: Pool.tla, every transition replayed on the real functions at the granularity of the spinlock's operations"""
    import shutil
    d = os.path.join(WORK, "pool"); os.makedirs(d, exist_ok=True)
    shutil.copy(os.path.join(SPEC, "Pool.tla"), d)
    N, F, X = "new", "free", "exit"
    cfgs = [("p2", [[N, F], [N, F]], 4), ("p2n", [[N, N, F, F], [N, F, N, F]], 6), ("p3", [[N, F], [N, F], [N, F]], 6),
            # the waiter destructor has run but the thread goes on using nsync (thread-local destructors run in no particular order): its
            # old waiter may meanwhile be another thread's
            ("p2e", [[N, F, X, N, F], [N, F, N, F]], 5)]
    if run.tier == "thorough":
        cfgs += [("p3n", [[N, F], [N, N, F, F], [N, F]], 6), ("p2x", [[N, F, N, N, F, F], [N, N, F, N, F, F]], 6), ("p2ee", [[N, F, X, N, F], [N, F, X, N, F]], 6),
                 ("p3e", [[N, F, X, N, F], [N, F], [N, N, F, F]], 6)]
    # both flavours of common.c: the per-thread waiter kept by the platform layer (platform/gcc_no_tls, as in every other harness) and in the
    # thread-local variable waiter_for_thread (HAVE_THREAD_LOCAL, as in the default builds)
    variants = [("c", build("h_pool"))]
    try:
        variants.append(("ctls", build("h_pool", flavour="ctls")))
    except SystemExit:
        run.note("the thread-local flavour of common.c could not be built from this tree (platform/gcc/compiler.h); only the platform-layer flavour was replayed")
    graphs = {}
    all_cfgs = [(name + ("" if fl == "c" else "@tls"), progs, maxw, fl, exe) for fl, exe in variants for name, progs, maxw in cfgs]
    wanted = {"Exclusive", "FreeIsFree", "NoDuplicates", "OneSlotEach", "NoLoss", "NoStuck"}
    for name, progs, maxw, fl, exe in all_cfgs:
        mname = name.replace("@", "_")
        open(os.path.join(d, "MC_%s.tla" % mname), "w").write("---- MODULE MC_%s ----\nEXTENDS Pool\nMCProg == %s\n====\n" % (mname, muconf.tla_val(progs)))
        cfg = os.path.join(d, "MC_%s.cfg" % mname)
        open(cfg, "w").write("SPECIFICATION SpecU\nCONSTANTS\n N = %d\n Prog <- MCProg\n MaxW = %d\n defaultInitValue = 0\nCONSTRAINT InitPrint\nACTION_CONSTRAINT Edge\nCHECK_DEADLOCK FALSE\n" % (len(progs), maxw))
        g, info = tlcgraph.run_tlc_graph(os.path.join(d, "MC_%s.tla" % mname), cfg, workers=4, cwd=d)
        if not info["ok"]:
            raise ToolFailure("TLC failed on Pool/%s: %s" % (name, "\n".join(info["log"][-30:])))
        tours = tlcgraph.build_tours(g)
        sched = os.path.join(d, "%s.sched" % mname)
        init = "harness=h_pool %sMaxW=%d progs=%s" % ("" if fl == "c" else "flavour=%s " % fl, maxw, ";".join("".join("x" if o == "exit" else o[0] for o in p) for p in progs))
        steps = tlcgraph.write_schedule(sched, g, tours, init, obs_fmt=tlcgraph.fmt_obs_noghost)
        res = run_harness(exe, ["replay", sched, REPLAYS], env=dict({"VERIF_PROP": prop}, **(env or {})))
        if on_res:
            on_res(res)
        st = res["stats"]
        run.add("states", info["distinct"]); run.add("transitions", len(g.edges)); run.add("traces_validated_against_impl", st.get("matched", 0))
        run.add("evaluations", st.get("tours", 0)); run.add("distinct_nontrivial", st.get("nontrivial", 0)); run.add("transitions_replayed", steps)
        run.cov.setdefault("configs", []).append({"name": "Pool/" + name, "states": info["distinct"], "transitions": len(g.edges), "tours": len(tours),
                                                  "matched": st.get("matched", 0), "diverged": st.get("diverged", 0), "tlc_wall_s": round(info["wall"], 1), "tlc_verdict": "ok"})
        if res["mismatch"]:
            run.note("DIVERGENCE in Pool/%s (spec/code; not a violation by itself): %s" % (name, res["mismatch"]))
            run.cov["conformant"] = False
        for v in res["viols"]:
            if wanted_or is None or v[0] in wanted_or:
                run.violation("%s|%s|Pool/%s" % (v[0], v[1], name), v[4], v[5])
        # every schedule with at most two preemptions, at the granularity of plain accesses (VERIF_PLAIN): the check-then-set windows of the
        # flag words are a few instructions wide, which random schedules hit by luck only (always for the 2-thread configurations, after a
        # divergence for the others)
        if len(progs) == 2 or res["mismatch"]:
            pf = os.path.join(d, "%s.init" % mname)
            open(pf, "w").write("T 1 %s\nE\n" % init)
            rp = run_harness(exe, ["pb", pf, "2", "150000", REPLAYS], env=dict({"VERIF_PROP": prop, "VERIF_PLAIN": "1"}, **(env or {})))
            run.add("evaluations", rp["stats"].get("tours", 0))
            run.cov.setdefault("preemption_bounded", []).append({"config": "Pool/" + name, "bound": 2, "schedules": rp["stats"].get("tours", 0), "violations": len(rp["viols"])})
            for v in rp["viols"]:
                if wanted_or is None or v[0] in wanted_or:
                    run.violation("%s|%s|Pool/%s preemption-bounded" % (v[0], v[1], name), v[4], v[5])
            os.unlink(pf)
        if prop != "C02":
            os.unlink(sched)
            continue
        for k, f in enumerate(tlcgraph.analyse(g)):
            if f["name"] not in wanted:
                continue
            path = os.path.join(REPLAYS, "C02_pool_%s_%s_%d.sched" % (name, f["name"], k))
            tlcgraph.write_schedule(path, g, [f["path"]], init, obs_fmt=tlcgraph.fmt_obs_noghost)
            r2 = run_harness(exe, ["replay", path, REPLAYS], env={"VERIF_PROP": "C02"})
            if r2["viols"] or r2["stats"].get("matched", 0) == 1:
                run.violation("TLC|%s|%s|Pool/%s" % (f["name"], f["label"], name), path, "Pool.tla refutes %s; on the real common.c: %s" % (f["name"], r2["viols"][0][5] if r2["viols"] else "the code follows the counterexample in lock-step to the end"))
        for k, df in enumerate(res.get("divfiles", [])[:4]):
            rz = run_harness(exe, ["from", df, "3000", str(seed() + k), REPLAYS], env={"VERIF_PROP": "C02", "VERIF_PLAIN": "1"})
            run.add("evaluations", 3000)
            for v in rz["viols"]:
                run.violation("%s|%s|Pool/%s continue" % (v[0], v[1], name), v[4], v[5])
        os.unlink(sched)


def main(tier, replay=None):
    return mu_check("C02", tier, replay, post=sim_part,
                    extra_rule="; 4-thread programs on the LONG_WAIT_THRESHOLD=2 build: behaviours from TLC's simulation mode, every generated transition replayed in lock-step")
