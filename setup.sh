#!/bin/sh
# Build the framework from files on disk only (offline).  Everything the checks need beyond this
# (instrumented builds of /repo, TLC runs) is rebuilt by the checks themselves.
set -e
cd "$(dirname "$0")"
mkdir -p build/tlc evidence replays
for f in spec/*.tla; do
  case "$f" in *_TTrace_*) continue;; esac
  tla-sany "$f" >/dev/null 2>&1 || { echo "SANY failed on $f"; tla-sany "$f" | tail -20; exit 1; }
done
gcc -O1 -g -Wall -c rt/rt.c -o build/rt_selftest.o
echo setup ok
