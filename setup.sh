#!/bin/sh
# Build the framework from files on disk only (offline).  Everything the checks need beyond this
# (instrumented builds of /repo, TLC runs) is rebuilt by the checks themselves.
set -e
cd "$(dirname "$0")"
mkdir -p build evidence replays
( cd spec
  for f in *.tla; do
    case "$f" in *_TTrace_*) continue;; esac
    tla-sany "$f" >/tmp/sany_$$.log 2>&1 || { echo "SANY failed on $f"; tail -20 /tmp/sany_$$.log; rm -f /tmp/sany_$$.log; exit 1; }
  done
  rm -f /tmp/sany_$$.log )
gcc -O1 -g -w -c rt/rt.c -o build/rt_selftest.o
# binding self-test: a recorded trace is accepted, a corrupted one and one with a dropped event are rejected
python3 tools/selftest.py
echo setup ok
